"""Shared generators for the NonnegMean properties (C01, C05, C11, C12, C13) — DESIGN section 3.

A configuration is a JSON-able dict
    {"family", "test", "estim", "bet", "N" (int or None = infinite), "u", "t", "random_order", "kw"}
Input domains follow the library's documentation (DESIGN 2.6): 0 < t < u, eta in (t,u),
fixed bet lam in [0, 1/u], g in [0,1), c,d,minsd > 0, f >= 0, c_grapa_* in (0,1), rate_error_2 >= 0,
random_order=False only for the tests that document the flag.
"""
from hypothesis import strategies as st

FAMILIES = [
    "alpha-fixed", "alpha-shrink", "alpha-optcomp", "bet-fixed", "bet-agrapa",
    "kk", "km", "kw", "sprt-fin", "sprt-inf",
    "alpha-fixed-inf", "alpha-shrink-inf", "bet-fixed-inf", "bet-agrapa-inf", "alpha-optcomp-inf",
]
EPS = 2.0 ** -52


def natural(x):
    """the sample as a caller would naturally hold it: whole numbers as ints (an all-integer sample becomes an
    integer-typed array, e.g. 0/1 assorter values), everything else float."""
    import numpy as np

    return np.array([int(v) if float(v).is_integer() else float(v) for v in x])


def make_test(cfg):
    import math

    import numpy as np
    from shangrla.core.NonnegMean import NonnegMean

    kw = dict(cfg["kw"])
    if cfg.get("decoy"):
        # another contest's test was configured in this process first, with its own tuning parameters: none of them
        # is this test's business
        NonnegMean(test=NonnegMean.betting_mart, bet=NonnegMean.fixed_bet, u=1, N=np.inf, t=0.1, lam=5.0, eta=0.97, c=0.9, d=1,
                   f=3.0, minsd=0.5, g=0.5, rate_error_2=0.2)
    u = cfg["u"]
    if float(u).is_integer() and (cfg["N"] or 0) % 2 == 1:
        u = int(u)   # the audit code constructs its tests with the integer 1 (and an integer upper bound is as good as a float)
    args = {
        "test": getattr(NonnegMean, cfg["test"]),
        "u": u,
        # an infinite population may be declared with any float infinity, not only the numpy constant object
        "N": ([np.inf, math.inf, float("inf")][int(cfg["t"] * 1000) % 3]) if cfg["N"] is None else int(cfg["N"]),
        "t": cfg["t"],
        "random_order": cfg.get("random_order", True),
    }
    if cfg.get("estim"):
        args["estim"] = getattr(NonnegMean, cfg["estim"])
    if cfg.get("bet"):
        args["bet"] = getattr(NonnegMean, cfg["bet"])
    if cfg.get("implicit"):
        # the documented defaults: no estimator / bet and no eta / lam given (fixed alternative half-way between t and u,
        # fixed bet 1/2) - cfg["kw"] holds exactly those default values
        args.pop("estim", None), args.pop("bet", None), kw.pop("eta", None), kw.pop("lam", None)
    u0, N0 = cfg.get("u0"), cfg.get("N0")
    g0 = bool(cfg.get("g0")) and "g" in kw
    if u0 or N0 or g0:
        # the audit code builds its tests before margins are known and installs the bound afterwards (`test.u = ...`):
        # what counts is the bound in force when the test is used. Likewise the number of cards (`test.N = ...`, a corrected
        # count). The object may have been used in between (a first estimate, a first round under the provisional values)
        if u0:
            args["u"] = 1 if u0 == "default" else (u * 1.25 if u0 == "higher" else u * 0.8)
        if N0 and cfg["N"] is not None:
            args["N"] = int(cfg["N"]) + 3 if N0 == "higher" else max(2, int(cfg["N"]) - 2)
        kw_c = dict(kw)
        if g0:
            kw_c["g"] = kw["g"] + 0.05   # (the padding too may be set on the object later: `test.g = ...`)
        test = NonnegMean(**args, **kw_c)
        if g0:
            test.g = kw["g"]
        if cfg.get("used0"):
            try:
                test.test(np.array([args["u"] / 2, 0.0][: int(min(2, args["N"]))], dtype=float))
            except Exception:  # noqa: the provisional values may not suit each other; nothing is claimed about that call
                pass
        test.u = u
        if N0 and cfg["N"] is not None:
            test.N = int(cfg["N"])
        return test
    return NonnegMean(**args, **kw)


# ----------------------------------------------------------------------------- parameters


def _frac(lo=0.02, hi=0.98):
    return st.one_of(st.sampled_from([0.5, 0.25, 0.75, 0.1, 0.9]), st.floats(lo, hi))


@st.composite
def u_t(draw, dyadic=False, comparison=False):
    """(u, t) with 0 < t < u; t = 1/2 heavily weighted."""
    if comparison:
        v = draw(st.one_of(st.sampled_from([1.0, 0.5, 0.1, 0.01, 1e-3, 1e-5, 2.0 ** -20, 2.0 ** -40]), st.floats(1e-9, 1.0)))
        return 2 / (2 - v), 0.5
    if dyadic:
        u = draw(st.sampled_from([1.0, 1.0, 2.0, 1.5, 1.25, 0.75]))
        ts = [k / 8 for k in range(1, 16) if k / 8 < u]
        t = draw(st.sampled_from([0.5, 0.5] + ts))
        return u, t
    u = draw(st.one_of(
        # (a super-majority assorter's bound is 1/(2f): 4.4, 10 for small shares)
        st.sampled_from([1.0, 1.0, 2.0, 1 / (2 * 0.6), 1 / (2 * (2 / 3)), 0.75, 2 / (2 - 0.1), 2 / (2 - 0.013), 3.0, 4.4, 10.0]),
        st.floats(0.51, 4.0), st.floats(4.0, 12.0)))
    if draw(st.integers(0, 2)) > 0 and u > 0.5 * (1 + 1e-6):
        t = 0.5
    else:
        t = u * draw(_frac(0.02, 0.98))
    if not (0 < t < u):
        t = u / 2
    return u, t


@st.composite
def config(draw, family, dyadic=False, max_N=60, min_N=1, ut=None, dyadic_g=False):
    """One NonnegMean configuration of the given family."""
    fam = family
    inf = fam.endswith("-inf") or fam in ("km", "kw")
    base = fam[:-4] if fam.endswith("-inf") else fam
    u, t = ut if ut is not None else draw(u_t(dyadic=dyadic, comparison=(base == "alpha-optcomp")))
    N = None if inf else draw(st.integers(min_N, max_N))
    kw = {}
    cfg = {"family": fam, "estim": None, "bet": None, "N": N, "u": u, "t": t, "random_order": True,
           "u0": draw(st.sampled_from([None, None, None, "higher", "lower", "default"]))}
    cfg["N0"] = draw(st.sampled_from([None, None, None, None, "higher", "lower"])) if N is not None else None
    cfg["used0"] = draw(st.booleans())
    cfg["g0"] = draw(st.integers(0, 3)) == 0
    eta = t + (u - t) * draw(_frac())
    if not (t < eta < u):
        eta = (t + u) / 2
    if base == "alpha-fixed":
        cfg.update(test="alpha_mart", estim="fixed_alternative_mean")
        kw["eta"] = eta
    elif base == "alpha-shrink":
        cfg.update(test="alpha_mart", estim="shrink_trunc")
        kw.update(eta=eta,
                  c=draw(st.one_of(st.sampled_from([0.5, (eta - t) / 2, 0.01]), st.floats(1e-3, 1.0))),
                  d=draw(st.one_of(st.sampled_from([100, 10, 1, 0.5]), st.floats(0.1, 300.0))),
                  f=draw(st.one_of(st.sampled_from([0, 0, 0.01, 1]), st.floats(0.0, 3.0))),
                  minsd=draw(st.sampled_from([1e-6, 1e-3, 0.05, 0.5])))
    elif base == "alpha-optcomp":
        cfg.update(test="alpha_mart", estim="optimal_comparison")
        kw["rate_error_2"] = draw(st.one_of(st.sampled_from([1e-4, 1e-5, 0.0, 1e-3, 1e-2, 0.1]), st.floats(0.0, 0.3)))
    elif base == "bet-fixed":
        cfg.update(test="betting_mart", bet="fixed_bet")
        kw["lam"] = (1 / u) * draw(st.one_of(st.sampled_from([1.0, 0.5, 0.0, 0.999]), st.floats(0.0, 1.0)))
    elif base == "bet-agrapa":
        cfg.update(test="betting_mart", bet="agrapa")
        c0 = draw(st.one_of(st.sampled_from([0.5, 0.9, 0.99, 1 - EPS]), st.floats(0.01, 0.999)))
        cm = c0 + (1 - EPS - c0) * draw(st.sampled_from([0.0, 0.5, 1.0]))
        kw.update(lam=draw(st.one_of(st.sampled_from([0.5, 0.0, 1.0, 2.0]), st.floats(0.0, 3.0))),
                  c_grapa_0=c0, c_grapa_max=min(cm, 1 - EPS),
                  c_grapa_grow=draw(st.sampled_from([0, 0, 0.5, 2, 10])))
    elif base == "kk":
        cfg.update(test="kaplan_kolmogorov")
        kw["g"] = draw(st.one_of(st.sampled_from([0, 0, 0.1, 0.5]), st.floats(0.0, 0.99)))
        cfg["random_order"] = draw(st.sampled_from([True, True, False]))
    elif base == "km":
        cfg.update(test="kaplan_markov")
        kw["g"] = draw(st.one_of(st.sampled_from([0, 0.1, 0.5]), st.floats(0.0, 0.99)))
        cfg["random_order"] = draw(st.sampled_from([True, True, False]))
    elif base == "kw":
        cfg.update(test="kaplan_wald")
        kw["g"] = draw(st.one_of(st.sampled_from([0, 0.1, 0.5]), st.floats(0.0, 0.99)))
        cfg["random_order"] = draw(st.sampled_from([True, True, False]))
    elif base == "sprt-fin":
        # (an estimator may well be configured on the object - contests pass theirs to every test - the SPRT's alternative is eta)
        cfg.update(test="wald_sprt", estim=draw(st.sampled_from([None, None, "shrink_trunc", "optimal_comparison"])))
        kw["eta"] = eta
    elif base == "sprt":  # sprt-inf
        cfg.update(test="wald_sprt", estim=draw(st.sampled_from([None, None, "shrink_trunc"])))
        kw["eta"] = eta
        cfg["random_order"] = draw(st.sampled_from([True, True, False]))
    else:
        raise ValueError(fam)
    if base.startswith("alpha-") or base.startswith("bet-") or base == "sprt-fin":
        # the constructor accepts the flag for every test; C11 quantifies over both settings
        # (the finite-population SPRT documents that it refuses random_order=False: checked in C11)
        cfg["random_order"] = draw(st.sampled_from([True, True, True, False])) if base != "sprt-fin" else True
    cfg["decoy"] = draw(st.sampled_from([False, False, True]))
    if base in ("alpha-fixed", "bet-fixed") and cfg["u0"] is None and cfg["N0"] is None and u <= 2 and draw(st.integers(0, 4)) == 0:
        cfg["implicit"] = True
        if base == "alpha-fixed":
            kw["eta"] = t + (u - t) / 2
        else:
            kw["lam"] = 0.5
    if dyadic or dyadic_g:
        for k in ("g",):
            if k in kw:
                kw[k] = round(kw[k] * 8) / 8 if kw[k] < 0.99 else 0.875
    cfg["kw"] = kw
    return cfg


# ----------------------------------------------------------------------------- samples


def _value(u, t, dyadic=False):
    specials = [0.0, 0.0, u, u, t, u / 2, min(u, 0.5), u / 4, 3 * u / 4, u / 8]
    specials = [min(max(s, 0.0), u) for s in specials]
    if dyadic:
        grid = [k / 8 for k in range(0, 33) if k / 8 <= u]
        return st.sampled_from(specials[:4] + grid)
    return st.one_of(st.sampled_from(specials), st.floats(0.0, u), st.sampled_from([u * k / 8 for k in range(9)]))


@st.composite
def sample(draw, cfg, min_size=1, max_size=60, dyadic=False):
    """A sample in [0,u]^n, n <= N, stressing the regions C11/C13 name."""
    u, t, N = cfg["u"], cfg["t"], cfg["N"]
    hi = max_size if N is None else min(max_size, N)
    lo = min(min_size, hi)
    shapes = ["free", "free", "runs", "zeros-then", "us-then", "at-t", "two-valued", "len1"]
    if N is not None:
        shapes += ["exhaust", "exhaust", "saturate"]
    shape = draw(st.sampled_from(shapes))
    val = _value(u, t, dyadic)
    if shape == "len1" and lo <= 1:
        return [draw(val)]
    if shape == "exhaust":
        # spend exactly the null total N*t (as far as floats allow), then zeros: drives the null mean to 0
        k = int((N * t) // u)
        r = N * t - k * u
        head = [u] * k + ([r] if 0 < r <= u else []) + [0.0] * draw(st.integers(0, 2))
        head = draw(st.permutations(head)) if len(head) <= 8 else head
        x = list(head) + [0.0] * draw(st.integers(0, 4)) + draw(st.lists(val, max_size=3))
        return [float(v) for v in x][:max(1, hi)]
    if shape == "saturate":
        # zeros until the null conditional mean reaches u (j = N(1 - t/u)), then u's
        k = int(round(N * (1 - t / u)))
        x = [0.0] * k + [u] * draw(st.integers(0, 4)) + draw(st.lists(val, max_size=3))
        return [float(v) for v in x][:max(1, hi)] or [0.0]
    if shape == "free":
        x = draw(st.lists(val, min_size=lo, max_size=hi))
    elif shape == "runs":
        x = []
        nruns = draw(st.integers(1, 5))
        for _ in range(nruns):
            x += [draw(val)] * draw(st.integers(1, 12))
    elif shape == "zeros-then":
        x = [0.0] * draw(st.integers(1, max(1, hi))) + draw(st.lists(val, max_size=10))
    elif shape == "us-then":
        x = [u] * draw(st.integers(1, max(1, hi))) + draw(st.lists(val, max_size=10))
    elif shape == "at-t":
        x = [t] * draw(st.integers(1, max(1, hi)))
        x += draw(st.lists(val, max_size=5))
    else:
        a, b = draw(val), draw(val)
        x = draw(st.lists(st.sampled_from([a, b]), min_size=lo, max_size=hi))
    x = [float(v) for v in x][:hi]
    if len(x) < lo:
        x += [draw(val) for _ in range(lo - len(x))]
    return x


def families_for(names):
    return [f for f in FAMILIES if f in names] if names else list(FAMILIES)
