"""Shared generators for the audit-object properties (C02, C03, C06-C10) -- DESIGN section 3."""
from hypothesis import strategies as st

MARKS = [True, True, 1, 1, False, 0, 2, "", "x", None]
CANDS = ["A", "B", "C", "D", "E", "F"]


def truthy(v):
    return bool(v)


@st.composite
def ballot(draw, cands, p_missing=0.15, max_marks=None, write_in=False):
    """One card's votes in one contest: dict cand -> mark, {} (blank) or None (card lacks the contest)."""
    r = draw(st.integers(0, 99))
    if r < 100 * p_missing:
        return None
    if r < 100 * p_missing + 8:
        return {}
    shape = draw(st.sampled_from(["one", "one", "one", "any", "over", "falsy"] + (["write-in-only"] if write_in else [])))
    if shape == "write-in-only":
        # a mark for somebody who is not a candidate of the contest and nothing else: no vote for any candidate
        return {"WRITE_IN": draw(st.sampled_from([True, 1, "x"]))}
    if shape == "one":
        return {draw(st.sampled_from(cands)): draw(st.sampled_from([True, 1, 2, "x", "0"]))}   # ('0' is a non-empty string: a mark)
    if shape == "falsy":
        return {c: draw(st.sampled_from([False, 0, "", None])) for c in draw(st.lists(st.sampled_from(cands), max_size=3, unique=True))}
    if shape == "over":
        cs = draw(st.lists(st.sampled_from(cands), min_size=min(2, len(cands)), max_size=len(cands), unique=True))
        return {c: draw(st.sampled_from([True, 1, 2, "x", "0"])) for c in cs}
    cs = draw(st.lists(st.sampled_from(cands), max_size=len(cands), unique=True))
    return {c: draw(st.sampled_from(MARKS)) for c in cs}


# ------------------------------------------------------------------------------------------
# audit scenarios: contests + CVRs (+ MVRs), JSON-able; build() turns one into library objects
# ------------------------------------------------------------------------------------------

TESTS = {
    "alpha-shrink": {"test": "alpha_mart", "estim": "shrink_trunc", "kw": {}},
    "alpha-shrink-d10": {"test": "alpha_mart", "estim": "shrink_trunc", "kw": {"d": 10, "c": 0.1}},
    "alpha-optcomp": {"test": "alpha_mart", "estim": "optimal_comparison", "kw": {}},
    "alpha-fixed": {"test": "alpha_mart", "estim": "fixed_alternative_mean", "kw": {}},
    "bet-agrapa": {"test": "betting_mart", "bet": "agrapa", "kw": {"lam": 0.5, "c_grapa_0": 0.9, "c_grapa_max": 0.99, "c_grapa_grow": 1}},
    "bet-fixed": {"test": "betting_mart", "bet": "fixed_bet", "kw": {"lam": 0.4}},
    "km": {"test": "kaplan_markov", "kw": {}},
    "kw": {"test": "kaplan_wald", "kw": {}},
    "kk": {"test": "kaplan_kolmogorov", "kw": {}},   # (needs a finite population; the padding g is the contest's)
}


@st.composite
def ranking(draw, cands, p_missing=0.1):
    r = draw(st.integers(0, 99))
    if r < 100 * p_missing:
        return None
    k = draw(st.integers(0, len(cands)))
    perm = draw(st.permutations(cands))[:k]
    return {c: i + 1 for i, c in enumerate(perm)}


@st.composite
def contest_spec(draw, kind=None, audit_types=("CARD_COMPARISON", "ONEAUDIT", "POLLING"), ncand_max=4):
    kind = kind or draw(st.sampled_from(["plurality", "plurality", "super", "irv"]))
    ncand = draw(st.integers(2, ncand_max)) if kind != "irv" else draw(st.integers(3, max(3, ncand_max)))
    cands = CANDS[:ncand]
    at = draw(st.sampled_from(list(audit_types)))
    # optimal_comparison is documented for ballot-level comparison audits only (u > 1)
    tests = [t for t in sorted(TESTS) if not (at == "POLLING" and t == "alpha-optcomp")]
    spec = {"kind": kind, "cands": cands, "audit_type": at,
            "risk_limit": draw(st.sampled_from([0.05, 0.05, 0.1, 0.01, 0.25, 0.5])),
            "test": draw(st.sampled_from(tests))}
    if kind == "plurality":
        k = draw(st.integers(1, ncand - 1))
        spec["winners"] = sorted(draw(st.lists(st.sampled_from(cands), min_size=k, max_size=k, unique=True)))
    elif kind == "super":
        spec["winners"] = [draw(st.sampled_from(cands))]
        spec["f"] = draw(st.sampled_from(["1/2", "1/2", "2/3", "3/5", "1/4", "2/5", "11/20"]))
        # built through make_all_assertions, or by calling make_supermajority_assertion directly (as the library's own
        # test does) and leaving its share_to_win argument at its default: the contest's own share must govern
        spec["direct"] = draw(st.booleans())
    else:
        w = draw(st.sampled_from(cands))
        spec["winners"] = [w]
        js = []
        for _ in range(draw(st.integers(1, 3))):
            a, b = draw(st.lists(st.sampled_from(cands), min_size=2, max_size=2, unique=True))
            if draw(st.integers(0, 3)) > 0 and a != w:  # most assertions are about the reported winner
                a, b = w, (a if b == w else b)
            if draw(st.booleans()):
                js.append({"winner": a, "loser": b, "assertion_type": "WINNER_ONLY", "already_eliminated": ""})
            else:
                others = [c for c in cands if c not in (a, b)]
                el = draw(st.lists(st.sampled_from(others), max_size=len(others), unique=True)) if others else []
                js.append({"winner": a, "loser": b, "assertion_type": "IRV_ELIMINATION", "already_eliminated": sorted(el)})
        # distinct keys only (the library keys assertions by winner/loser/eliminated)
        seen, uniq = set(), []
        for j in js:
            key = (j["winner"], j["loser"], j["assertion_type"], tuple(j["already_eliminated"]))
            if key not in seen:
                seen.add(key)
                uniq.append(j)
        spec["json"] = uniq
    return spec


def votes_strategy(spec, favour=None, p_missing=0.15):
    """ballot in one contest; `favour` biases towards that candidate so that reported winners usually win."""
    cands = spec["cands"]
    if spec["kind"] == "irv":
        base = ranking(cands, p_missing=p_missing)
        if favour is None:
            return base
        return st.one_of(base, base, st.builds(lambda rest: {c: i + 1 for i, c in enumerate([favour] + [x for x in rest if x != favour])},
                                               st.permutations(cands).map(lambda p: list(p)[: 2])))
    base = ballot(cands, p_missing=p_missing)
    if favour is None:
        return base
    return st.one_of(base, st.just({favour: 1}), st.just({favour: True}))


@st.composite
def scenario(draw, n_contests=(1, 2), kinds=None, audit_types=("CARD_COMPARISON", "ONEAUDIT", "POLLING"),
             n_cards=(3, 30), favour_winner=False, with_pools=True, with_phantoms=True, use_style=None,
             mvr_modes=("copy", "copy", "copy", "copy", "other", "phantom", "drop-contest"), p_missing=0.15):
    us = draw(st.booleans()) if use_style is None else use_style
    ncon = draw(st.integers(*n_contests))
    specs = {}
    # contest identifiers are labels too: 'Council, Ward 3' is one contest, 'Council' and 'Ward 3' are two others
    names = draw(st.sampled_from([["K0", "K1", "K2", "K3"]] * 4 + [["Council, Ward 3", "Council", "Ward 3", "K3"]]))
    for i in range(ncon):
        specs[names[i]] = draw(contest_spec(kind=(draw(st.sampled_from(kinds)) if kinds else None), audit_types=audit_types))
    extra = "X"  # an un-audited contest that only varies card styles
    n = draw(st.integers(*n_cards))
    any_one = any(s["audit_type"] == "ONEAUDIT" for s in specs.values())
    # batch labels are arbitrary objects: strings, integers (a batch may well be numbered 0) or an empty string
    # (... or happen to coincide with a card identifier: labels and identifiers are different name spaces)
    labels = draw(st.sampled_from([["p1", "p2", "p3"], ["p1", "p2", "p3"], [0, 1, 2], ["", "a", "b"], ["1-0-0", "1-0-1", "p3"],
                                   [1, "1", "p3"]]))   # (1 and '1' are different labels)
    pooled = sorted(draw(st.sets(st.sampled_from(labels))), key=repr) if (with_pools and any_one) else []
    cards = []
    for i in range(n):
        ph = with_phantoms and draw(st.integers(0, 9)) == 0
        votes = {}
        for cid, s in specs.items():
            fav = s["winners"][0] if favour_winner else None
            v = draw(votes_strategy(s, favour=fav, p_missing=p_missing))
            if ph:
                if v is not None or draw(st.booleans()):
                    votes[cid] = {}
            elif v is not None:
                votes[cid] = v
        if draw(st.integers(0, 3)) == 0:
            votes[extra] = {}
        tp = draw(st.sampled_from(labels)) if with_pools else None
        # (a phantom may carry a pooled batch's label without being pooled itself: make_phantoms(tally_pool=..., pool=False))
        pool = (tp in pooled) and not (ph and draw(st.booleans()))
        cards.append({"id": f"1-{i // 7}-{i}", "votes": votes, "phantom": ph, "tally_pool": tp, "pool": pool})
    mvrs = []
    for i, c in enumerate(cards):
        mode = draw(st.sampled_from(list(mvr_modes)))
        m = {"mode": mode}
        if mode == "other":
            votes = {}
            for cid, s in specs.items():
                v = draw(votes_strategy(s))
                if v is not None:
                    votes[cid] = v
            m["votes"] = votes
        elif mode == "drop-contest":
            keep = {k: v for k, v in c["votes"].items() if k != draw(st.sampled_from(sorted(specs)))}
            m["votes"] = keep
        mvrs.append(m)
    return {"use_style": us, "contests": specs, "cards": cards, "pooled": pooled, "mvrs": mvrs,
            "pool_workflow": draw(st.sampled_from([True, True, False]))}


def expand(scn, size):
    """the scenario's cards (and their manual records) repeated up to `size` cards, each with an identifier of its own;
    the last repetition is cut short"""
    n0 = len(scn["cards"])
    if not size or not n0:
        return scn
    cards = [dict(scn["cards"][i % n0], id=f"1-{i // 7}-{i}") for i in range(size)]
    mvrs = [scn["mvrs"][i % n0] for i in range(size)]
    return dict(scn, cards=cards, mvrs=mvrs)


def from_file(obj):
    """the same value as if it had been read from a JSON/TOML file: equal, but none of its strings is the identical
    object as a constant of the library (configuration is read from files in real audits)"""
    import json

    return json.loads(json.dumps(obj))


def build(scn, pool_workflow=True):
    """-> (audit, contests, cvrs, mvrs) library objects for a scenario (fresh objects on every call)."""
    import copy
    from fractions import Fraction

    from shangrla.core.Audit import Assertion, Audit, Contest, CVR
    from shangrla.core.NonnegMean import NonnegMean

    us = scn["use_style"]
    n = len(scn["cards"])
    d = {}
    for cid, s in scn["contests"].items():
        t = TESTS[s["test"]]
        cd = {"name": cid, "risk_limit": s["risk_limit"], "cards": s.get("cards", n), "n_winners": len(s["winners"]),
              "candidates": list(s["cands"]), "winner": list(s["winners"]), "audit_type": from_file(s["audit_type"]),
              "test": getattr(NonnegMean, t["test"]), "estim": getattr(NonnegMean, t["estim"]) if t.get("estim") else None,
              "bet": getattr(NonnegMean, t["bet"]) if t.get("bet") else None, "test_kwargs": dict(t["kw"]),
              "use_style": us, "g": 0.1}
        if s["kind"] == "plurality":
            cd["choice_function"] = from_file("PLURALITY")
        elif s["kind"] == "super":
            cd["choice_function"] = from_file("SUPERMAJORITY")
            cd["share_to_win"] = float(Fraction(s["f"]))
        else:
            cd["choice_function"] = from_file("IRV")
            cd["assertion_file"] = "generated"
            cd["assertion_json"] = from_file(s["json"])
        d[cid] = cd
    contests = Contest.from_dict_of_dicts(d)
    audit = Audit.from_dict({"seed": 12345678901234567890, "sim_seed": 314159265, "quantile": 0.8, "error_rate_1": 0.001,
                             "error_rate_2": 0.0, "reps": None,
                             "strata": {"s": {"max_cards": scn.get("max_cards", n), "use_style": us, "replacement": False}}})
    Assertion.make_all_assertions(contests)
    for cid, s in scn["contests"].items():
        if s["kind"] == "super" and s.get("direct"):
            con = contests[cid]
            con.assertions = Assertion.make_supermajority_assertion(
                contest=con, winner=con.winner[0], loser=[c for c in con.candidates if c not in con.winner],
                test=con.test, test_kwargs=con.test_kwargs, estim=con.estim, bet=con.bet)
    cvrs = [CVR(id=c["id"], votes=copy.deepcopy(c["votes"]), phantom=c["phantom"], tally_pool=c["tally_pool"], pool=c["pool"])
            for c in scn["cards"]]
    if pool_workflow and scn.get("pool_workflow", True) and any(c.pool for c in cvrs):
        tps = CVR.pool_contests(cvrs)
        CVR.add_pool_contests(cvrs, tps)
    mvrs = []
    for c, m in zip(scn["cards"], scn["mvrs"]):
        if m["mode"] == "copy":
            mvrs.append(CVR(id=c["id"], votes=copy.deepcopy(c["votes"]), phantom=False) if not c["phantom"]
                        else CVR(id=c["id"], votes={}, phantom=True))
        elif m["mode"] == "phantom":
            mvrs.append(CVR(id=c["id"], votes={}, phantom=True))
        else:
            mvrs.append(CVR(id=c["id"], votes=copy.deepcopy(m["votes"]), phantom=False))
    return audit, contests, cvrs, mvrs


@st.composite
def sampling_plan(draw, scn):
    """distinct sample numbers for every card and a per-contest sample size 1..#cards listing the contest."""
    n = len(scn["cards"])
    nums = draw(st.permutations(list(range(1, n + 1))))
    scale = draw(st.sampled_from([1, 1, 7, 10 ** 6, 2 ** 61, "close", "close"]))
    if draw(st.integers(0, 3)) == 0:
        nums = [int(v) - 1 for v in nums]   # numbering from 0: the first card's number is 0
    if scale == "close":
        # 65..256-bit numbers that differ only in their low bits (sample numbers are 256-bit integers in practice)
        base = draw(st.sampled_from([2 ** 64, 2 ** 200, 2 ** 255 + 2 ** 254, 10 ** 30]))
        nums = [base + int(v) for v in nums]
    else:
        nums = [int(v) * scale + draw(st.integers(0, scale - 1)) if scale > 1 else int(v) for v in nums]
    sizes = {}
    return {"sample_nums": nums, "size_fracs": {cid: draw(st.floats(0.0, 1.0)) for cid in scn["contests"]}}


def apply_plan(scn, plan, cvrs, contests, min_size=1):
    """install sample numbers and sizes (size = min_size + frac*(available-min_size), available = cards listing the contest)."""
    for c, s in zip(cvrs, plan["sample_nums"]):
        c.sample_num = s
    for cid, con in contests.items():
        avail = sum(1 for c in cvrs if c.has_contest(cid))
        lo = min(min_size, avail)
        con.sample_size = lo + int(round(plan["size_fracs"][cid] * (avail - lo)))
    return {cid: con.sample_size for cid, con in contests.items()}
