"""IRV ballot profiles (DESIGN section 3): decisive, near-tie / tie, wrong reported winner."""
from hypothesis import strategies as st

CANDS = ["A", "B", "C", "D", "E", "F", "G"]


@st.composite
def pref_list(draw, cands):
    k = draw(st.integers(0, len(cands)))
    return list(draw(st.permutations(cands)))[:k]


@st.composite
def profile(draw, n_min=2, n_max=5, max_ballots=60):
    """{"cands", "ballots": [pref list | None (record without the contest)], "winner", "order_hint", "asn"}"""
    from oracles.irv_ref import irv_winners, irv_order

    n = draw(st.integers(n_min, n_max))
    # letters, or numeric identifiers that concatenate ambiguously ('1'+'2' == '12')
    cands = (CANDS if draw(st.integers(0, 2)) else ["1", "12", "2", "21", "11", "112", "121"])[:n]
    if draw(st.integers(0, 5)) == 0:
        cands = list(range(n))   # candidates numbered 0..n-1 as integers (0 is a candidate like any other)
    shape = draw(st.sampled_from(["decisive", "decisive", "mixed", "tie", "tiny"]))
    # some ballots also rank an identifier that is not a candidate of the contest (a write-in, a withdrawn candidate):
    # the shipped .raire reader keeps each candidate's position in the FULL preference list, so the generator-side
    # ranks of such a ballot have gaps ({C: 0, A: 2}); only their order means anything. The undeclared identifier is never
    # generated in FIRST position: there both the generator and the audit count the ballot as nobody's first preference
    # (rank 0 / rank 1 is what they test), which is a different - conservative - reading of the ballot, not a gap.
    wi_mode = draw(st.integers(0, 3)) == 0

    def _wi(sig):
        if not wi_mode or len(sig) < 2 or draw(st.integers(0, 2)) == 0:
            return ()
        return tuple(sorted(draw(st.sets(st.integers(1, len(sig) - 1), min_size=1, max_size=2))))

    ballots = []
    if shape == "tiny":
        nb = draw(st.integers(1, 6))
        for _ in range(nb):
            b = draw(pref_list(cands))
            ballots.append((b, _wi(b)))
    else:
        # a few ballot signatures with multiplicities: makes ties and clear winners both likely
        nsig = draw(st.integers(1, 6))
        for _ in range(nsig):
            sig = draw(pref_list(cands))
            mult = draw(st.integers(1, 12)) if shape != "tie" else draw(st.sampled_from([1, 2, 2, 3, 3, 4]))
            ballots += [(list(sig), _wi(sig))] * mult
        if shape == "decisive":
            fav = draw(st.permutations(cands))
            ballots += [(list(fav), ())] * draw(st.integers(len(ballots) // 2 + 1, len(ballots) + 5))
    ballots = ballots[:max_ballots]
    # blank ballots and records lacking the contest
    extra = draw(st.lists(st.sampled_from([[], None]), max_size=3))
    ballots = ballots + [(e, ()) for e in extra]
    ballots = list(draw(st.permutations(ballots))) if len(ballots) <= 12 else ballots
    writeins = {str(i): list(w) for i, (_, w) in enumerate(ballots) if w}
    ballots = [b for b, _ in ballots]
    # the records may reach the generator through its own reader of the RAIRE file format (then a ballot may also name a
    # candidate again further down, which means nothing)
    via_file = draw(st.integers(0, 3)) == 0 and isinstance(cands[0], str)
    repeats = {}
    if via_file:
        for i, b in enumerate(ballots):
            if b and draw(st.integers(0, 7)) == 0:
                j = draw(st.integers(0, len(b) - 1))
                repeats[str(i)] = [j, draw(st.integers(0, j))]   # after position j, candidate b[k] (k <= j) is named again
    real = [b for b in ballots if b is not None]
    ws = sorted(irv_winners(cands, real)) if real else list(cands)
    r = draw(st.integers(0, 9))
    if r < 7:
        winner = draw(st.sampled_from(ws))
    else:
        winner = draw(st.sampled_from(cands))
    # the hint is only a search heuristic (a complete order the dive follows first); the file format carries it next to the
    # winner, and nothing makes the two agree: it may end in the reported winner, be the records' own elimination order
    # while the reported winner is another candidate, or be any order at all
    hint = draw(st.sampled_from([None, None, None, "perm", "perm", "true", "any"]))
    order = None
    if hint == "perm":
        rest = [c for c in draw(st.permutations(cands)) if c != winner]
        order = rest + [winner]
    elif hint == "true":
        order = irv_order(cands, real)
    elif hint == "any":
        order = list(draw(st.permutations(cands)))
    # auditable ballots beyond the supplied records (the 'informal' count of a .raire header / a card upper bound)
    extra = draw(st.sampled_from([0, 0, 0, 1, 3, 10, 40]))
    return {"cands": cands, "ballots": ballots, "winner": winner, "order_hint": order,
            "asn": draw(st.sampled_from(["bp_estimate", "bp_estimate", "cp_estimate", "cp_estimate"] + sorted(CUSTOM_DIFFICULTY))), "tot_extra": extra,
            "contest_name": draw(st.sampled_from(["c", "c", "339", 1])), "writeins": writeins,
            "via_file": via_file, "repeats": repeats,
            # allowed gap between the bounds at which the search may stop (C04 only: sufficiency does not depend on it; C15 is
            # stated for gap 0)
            "agap": draw(st.sampled_from([0, 0, 0, 0.5, 2.0, 10.0, 25.0]))}


# difficulty functions: the two shipped ones, and others that decrease as the margin grows (the search is generic in it:
# f(winner votes, loser votes, other ballots, total)); some take non-positive values
CUSTOM_DIFFICULTY = {
    "neg_margin_share": lambda w, l, o, t: -(w - l) / t,
    "shifted_inverse_share": lambda w, l, o, t: t / (w - l) - 3.0,
    "inverse_margin_votes": lambda w, l, o, t: 1.0 / (w - l),
    "neg_margin_votes": lambda w, l, o, t: -1.0 * (w - l),   # values far below zero (the search once started from -10)
}


def difficulty(name):
    from shangrla.raire import sample_estimator

    return CUSTOM_DIFFICULTY[name] if name in CUSTOM_DIFFICULTY else getattr(sample_estimator, name)


def raire_file_lines(prof, contest):
    """the profile as lines of a RAIRE file (one contest)"""
    wi = prof.get("writeins") or {}
    rep = prof.get("repeats") or {}
    lines = ["1", ",".join(["Contest", str(contest), str(len(prof["cands"]))] + list(prof["cands"]) + ["winner", str(prof["winner"])])]
    for i, b in enumerate(prof["ballots"]):
        if b is None:
            continue
        before = wi.get(str(i), [])
        toks = []
        for j, c in enumerate(b):
            toks += ["WI%d" % j] * before.count(j)
            toks.append(c)
            if str(i) in rep and rep[str(i)][0] == j:
                toks.append(b[rep[str(i)][1]])
        lines.append(",".join([str(contest), str(i)] + toks))
    return lines


def raire_cvrs(prof, contest=None):
    """the generator-side CVR dict: {ballot id: {contest: {cand: 0-based rank}}}; through the generator's own file reader
    when the profile says so"""
    contest = prof.get("contest_name", "c") if contest is None else contest
    if prof.get("via_file"):
        import os
        import shutil
        import tempfile

        from harness.boot import VERIF
        from shangrla.raire.raire_utils import load_contests_from_raire

        os.makedirs(os.path.join(VERIF, ".work"), exist_ok=True)
        d = tempfile.mkdtemp(prefix="irv_", dir=os.path.join(VERIF, ".work"))
        try:
            p = os.path.join(d, "p.raire")
            with open(p, "w") as fh:
                fh.write("\n".join(raire_file_lines(prof, contest)) + "\n")
            _, got = load_contests_from_raire(p)
        finally:
            shutil.rmtree(d, ignore_errors=True)
        # (records lacking the contest are not in the file; the in-memory form has them as empty records)
        cvrs = {}
        for i, b in enumerate(prof["ballots"]):
            cvrs[str(i)] = {} if b is None else {contest: got.get(str(i), {}).get(str(contest), {})}
        return cvrs
    cvrs = {}
    wi = prof.get("writeins") or {}
    for i, b in enumerate(prof["ballots"]):
        if b is None:
            cvrs[str(i)] = {}
            continue
        before = wi.get(str(i), [])   # positions (in the clean list) in front of which an undeclared identifier is ranked
        ranks, shift = {}, 0
        for j, c in enumerate(b):
            shift += before.count(j)
            ranks[c] = j + shift
        if len(prof["ballots"]) % 3 == 0:
            # the rankings come from a parser that collected them in a mapping with a default for missing keys
            # (collections.defaultdict): a candidate is ranked iff it is a key
            import collections
            ranks = collections.defaultdict(int, ranks)
        cvrs[str(i)] = {contest: ranks}
    return cvrs
