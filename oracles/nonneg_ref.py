"""Reference formulas for the NonnegMean properties, written from the published definitions
(Stark 2022 ALPHA; Waudby-Smith & Ramdas betting; Kaplan martingales), not from the code."""
import math


def mu_seq(N, t, x):
    """mu_j = (N t - sum_{k<j} x_k)/(N-j+1) for finite N (j = 1..n), t otherwise."""
    if N is None:
        return [t] * len(x)
    out, S = [], 0.0
    for j, v in enumerate(x, start=1):
        out.append((N * t - S) / (N - j + 1))
        S += v
    return out


def total_exceeds(N, t, x):
    """index (0-based) of the first draw after which the observed total exceeds N t, else None."""
    if N is None:
        return None
    S = 0.0
    for j, v in enumerate(x):
        S += v
        if S > N * t:
            return j
    return None


def as_list(v, n):
    import numpy as np

    a = np.asarray(v, dtype=float)
    if a.ndim == 0:
        return [float(a)] * n
    return [float(z) for z in a]
