"""Exact rejection probability of a sequential test under a given null population (C01).

Finite N: every distinct arrangement of the multiset is equally likely under simple random sampling
without replacement, so P(M <= v) = #{arrangements with M <= v} / #arrangements, exactly.
IID: every path of length L has probability prod p(atom), summed exactly with Fractions.
M = min(overall p-value, min of the p-value history) for one arrangement / path.
"""
from fractions import Fraction


def multiset_permutations(items):
    """distinct arrangements of a multiset, lexicographic (Narayana's next-permutation)."""
    a = sorted(items)
    n = len(a)
    while True:
        yield tuple(a)
        i = n - 2
        while i >= 0 and a[i] >= a[i + 1]:
            i -= 1
        if i < 0:
            return
        j = n - 1
        while a[j] <= a[i]:
            j -= 1
        a[i], a[j] = a[j], a[i]
        a[i + 1:] = reversed(a[i + 1:])


def n_arrangements(items):
    from collections import Counter
    from math import factorial

    c = Counter(items)
    r = factorial(len(items))
    for k in c.values():
        r //= factorial(k)
    return r


def exact_mean_le(values, t, weights=None):
    """sum(w_i x_i) <= t decided on the exact rational values of the floats."""
    if weights is None:
        return sum(Fraction(v) for v in values) <= Fraction(t) * len(values)
    return sum(Fraction(v) * w for v, w in zip(values, weights)) <= Fraction(t)


def max_ratio(ms_with_prob):
    """max over attained v in (0,1) of P(M<=v)/v -- a search signal only (<= 1 for a valid test)."""
    ms_with_prob = sorted(ms_with_prob, key=lambda z: z[0])
    cum, best = Fraction(0), 0.0
    for v, p in ms_with_prob:
        if v != v:
            continue
        cum += p
        if 0 < v < 1:
            best = max(best, float(cum) / v)
    return best


def worst_excess(ms_with_prob, rel=1e-9):
    """ms_with_prob: list of (M, probability as Fraction).  Returns None if P(M<=v) <= v(1+rel) for every
    attained v < 1, else (v, P(M<=v)) for the smallest offending v."""
    ms_with_prob = sorted(ms_with_prob, key=lambda z: z[0])
    cum = Fraction(0)
    i = 0
    n = len(ms_with_prob)
    while i < n:
        v = ms_with_prob[i][0]
        while i < n and ms_with_prob[i][0] == v:
            cum += ms_with_prob[i][1]
            i += 1
        if v != v:  # NaN: not this property's business (C11)
            continue
        if v < 1 and float(cum) > max(v, 0.0) * (1 + rel) + 1e-15:
            return (v, float(cum))
    return None
