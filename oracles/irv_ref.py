"""Reference semantics for IRV assertions (NEB / NEN), written from the RAIRE paper's definitions on plain
preference lists (most preferred first).  Used by C04, C14, C15, C20."""
import itertools
import math


def neb_votes(w, l, b):
    """(counts for winner, counts for loser) of ballot b under 'w not eliminated before l'."""
    vw = 1 if (b and b[0] == w) else 0
    vl = 1 if (l in b and (w not in b or b.index(l) < b.index(w))) else 0
    return vw, vl


def nen_vote(c, E, b):
    """1 if c is the first preference of b once the candidates in E are removed."""
    r = [x for x in b if x not in E]
    return 1 if (r and r[0] == c) else 0


def all_true_assertions(cands, ballots, difficulty=None, total=None):
    """every true NEB / NEN assertion: (kind, w, l, frozenset E, tally_w, tally_l, difficulty)."""
    out = []
    N = len(ballots) if total is None else total
    for w in cands:
        for l in cands:
            if w == l:
                continue
            tw = sum(neb_votes(w, l, b)[0] for b in ballots)
            tl = sum(neb_votes(w, l, b)[1] for b in ballots)
            if tw > tl:
                out.append(("NEB", w, l, frozenset(), tw, tl, difficulty(tw, tl, N - tw - tl, N) if difficulty else None))
            others = [c for c in cands if c not in (w, l)]
            for k in range(len(others) + 1):
                for E in itertools.combinations(others, k):
                    E = frozenset(E)
                    tw = sum(nen_vote(w, E, b) for b in ballots)
                    tl = sum(nen_vote(l, E, b) for b in ballots)
                    if tw > tl:
                        out.append(("NEN", w, l, E, tw, tl, difficulty(tw, tl, N - tw - tl, N) if difficulty else None))
    return out


def contradicts(a, order):
    """does assertion a (kind, w, l, E, ...) rule out the complete elimination order `order` (winner last)?"""
    kind, w, l, E = a[0], a[1], a[2], a[3]
    if w not in order or (kind == "NEB" and l not in order):
        return False   # an assertion about somebody who is not a candidate of this contest rules out none of its orders
    if kind == "NEB":
        return order.index(w) < order.index(l)
    i = order.index(w)
    return frozenset(order[:i]) == E and i < len(order) - 1


def alternative_orders(cands, winner):
    return [o for o in itertools.permutations(cands) if o[-1] != winner]


def min_max_difficulty(cands, winner, true_assertions):
    """min over sufficient sets of the largest difficulty = max over alternative orders of the cheapest true
    assertion contradicting it; None if some order is contradicted by no true assertion (audit impossible)."""
    best = -math.inf   # (difficulty functions may take non-positive values)
    for o in alternative_orders(cands, winner):
        ds = [a[6] for a in true_assertions if contradicts(a, o)]
        if not ds:
            return None
        best = max(best, min(ds))
    return best


def irv_winners(cands, ballots):
    """set of candidates that can win under some tie-breaking."""
    winners = set()

    def rec(standing):
        if len(standing) == 1:
            winners.add(standing[0])
            return
        t = {c: 0 for c in standing}
        for b in ballots:
            r = [x for x in b if x in standing]
            if r:
                t[r[0]] += 1
        lo = min(t.values())
        for c in standing:
            if t[c] == lo:
                rec([x for x in standing if x != c])

    rec(list(cands))
    return winners


def irv_order(cands, ballots):
    """one true elimination order of the ballots (ties broken towards the candidate listed first), winner last."""
    standing, order = list(cands), []
    while len(standing) > 1:
        t = {c: 0 for c in standing}
        for b in ballots:
            r = [x for x in b if x in standing]
            if r:
                t[r[0]] += 1
        lo = min(t.values())
        c = next(x for x in standing if t[x] == lo)
        order.append(c)
        standing.remove(c)
    return order + standing
