#!/bin/bash
# tools/seed_matrix.sh [parallel]  -- every seeded change x every quick check, on scratch worktrees of /repo HEAD under /tmp.
# Each worktree is created, patched (git apply seeded/<X>/patch.diff), used with SHANGRLA_REPO and removed again. Nothing is written to /repo.
# Output: seeded/MATRIX.md (exit codes: 1 = VIOLATION reported = caught, 0 = not caught, 2 = harness error)
par=${1:-3}
cd /verif
checks=$(/venv/bin/python -c "import json;print(' '.join(c['property_id'] for c in json.load(open('MANIFEST.json'))['checks']))")
one() {
  x=$1; wt=/tmp/mx_$x; out=/tmp/mx_out/$x; mkdir -p $out
  git -C /repo worktree add -q --detach $wt HEAD 2>/dev/null || { echo "$x WORKTREE-FAILED"; return; }
  if ! git -C $wt apply /verif/seeded/$x/patch.diff 2>/dev/null; then echo "$x APPLY-FAILED"; git -C /repo worktree remove --force $wt; return; fi
  line="$x"
  for c in $CHECKS; do
    SHANGRLA_REPO=$wt VERIF_EVIDENCE_DIR=$out/ev VERIF_FOUND_DIR=$out/found /venv/bin/python /verif/run_check.py $c --tier quick --jobs 5 > $out/$c.txt 2>&1
    line="$line $c=$?"
  done
  echo "$line"
  git -C /repo worktree remove --force $wt
  rm -rf $out
}
export -f one; export CHECKS="$checks"
mkdir -p /tmp/mx_out
ls seeded | grep -E '^C[0-9]+[a-z]?$' | xargs -P $par -I{} bash -c 'one {}' > /tmp/mx_out/raw.txt 2>&1
/venv/bin/python - <<'PY'
import re, subprocess
rows=[l.split() for l in open('/tmp/mx_out/raw.txt') if re.match(r'^C\d+[a-z]? ', l)]
checks=[f"C{i:02d}" for i in range(1,21)]
head=subprocess.run(["git","-C","/repo","log","--oneline","-1"],capture_output=True,text=True).stdout.strip()
vh=subprocess.run(["git","-C","/verif","log","--oneline","-1"],capture_output=True,text=True).stdout.strip()
out=[f"# Seeded changes x quick checks\n\n/repo HEAD `{head}`; /verif `{vh}`; VERIF_SEED=1. Cell = exit code of the quick check run against the seeded change "
     "(1 = violation reported, i.e. caught; 0 = quiet; 2 = harness error). Row = seeded/<row>/patch.diff.\n",
     "| seeded | breaks | caught by | quiet |", "|---|---|---|---|"]
miss=0
for r in sorted(rows, key=lambda r:(r[0][:3], r[0])):
    x=r[0]; res=dict(p.split("=") for p in r[1:] if "=" in p)
    own=x[:3]
    caught=[c for c in checks if res.get(c)=="1"]; err=[c for c in checks if res.get(c) not in ("0","1")]
    if own not in caught: miss+=1
    out.append(f"| {x} | {own} | {', '.join(('**'+c+'**') if c==own else c for c in caught) or '-'} | {len(checks)-len(caught)-len(err)}{' (errors: '+', '.join(err)+')' if err else ''} |")
out.append(f"\n{len(rows)} seeded changes; {len(rows)-miss} caught by their own property's quick check; {sum(1 for r in rows if any(p.endswith('=1') for p in r[1:]))} caught by at least one check.")
open('/verif/seeded/MATRIX.md','w').write("\n".join(out)+"\n")
print(out[-1])
PY
