#!/bin/bash
# tools/seed_eval.sh <Cxx> [checks...]   -- confirm a seeded change (in /tmp/seed_<Cxx>, outputs in /tmp/seed_out/<Cxx>) and run checks against it.
# Confirms: patch applies to a pristine tree, 55 tests pass with it, demo fails with it and passes without. Then runs the quick checks
# (default: the property's own) with SHANGRLA_REPO pointing at the changed worktree. Writes /tmp/seed_out/<Cxx>/eval.txt
id=$1; shift
P=${SEED_PREFIX:-seed}; wt=/tmp/${P}_$id; out=/tmp/${P}_out/$id
checks=${@:-$id}
{
echo "== $id"
cd $wt || exit 2
git -C $wt diff --quiet && { echo "NO CHANGE APPLIED in worktree"; }
git -C $wt diff > $out/patch.confirmed.diff
echo "files: $(git -C $wt diff --stat | tail -1)"
t=$(PYTHONPATH=$wt PYTHONDONTWRITEBYTECODE=1 /venv/bin/python -m pytest -q -p no:cacheprovider 2>&1 | tail -1); echo "tests with change: $t"
PYTHONPATH=$wt PYTHONDONTWRITEBYTECODE=1 timeout 900 /venv/bin/python -W ignore $out/demo.py > $out/demo_with.txt 2>&1; echo "demo with change: exit $?"
git -C $wt apply -R $out/patch.confirmed.diff   # (not `git stash`: the stash is shared by all worktrees of a repository, so parallel runs would swap changes)
PYTHONPATH=$wt PYTHONDONTWRITEBYTECODE=1 timeout 900 /venv/bin/python -W ignore $out/demo.py > $out/demo_without.txt 2>&1; echo "demo without change: exit $?"
git -C $wt apply $out/patch.confirmed.diff
for c in $checks; do
  s=$(date +%s)
  r=$(SHANGRLA_REPO=$wt VERIF_EVIDENCE_DIR=$out/ev VERIF_FOUND_DIR=$out/found /venv/bin/python /verif/run_check.py $c --tier quick --jobs 8 2>&1)
  rc=$?
  echo "check $c: exit $rc ($(( $(date +%s)-s ))s) $(echo "$r" | grep -m2 -E 'clause=|HARNESS' | tr '\n' ' ' | cut -c1-300)"
done
} 2>&1 | tee $out/eval.txt
