"""Sensitivity runner (DESIGN section 6).

    tools/mutate.py [--only NAME_SUBSTR] [--props C11,C13] [--tests] [--jobs 4]

For every mutant in mutants/mutants.json (a textual substitution in one file of the repository):
copy /repo's tests + shangrla into a scratch directory under /tmp, apply the substitution, optionally run
the repository's own test-suite there (--tests: the mutant must keep it green), run the quick check of every
property listed for the mutant with SHANGRLA_REPO pointing at the copy, expect exit 1, delete the copy.
Results are appended to mutants/RESULTS.md.  Nothing is ever written into /repo.
"""
import argparse
import json
import os
import shutil
import subprocess
import sys
import tempfile
import time
from concurrent.futures import ThreadPoolExecutor

ROOT = os.path.dirname(os.path.dirname(os.path.abspath(__file__)))
REPO = "/repo"
PY = "/venv/bin/python"


def run_one(m, args):
    d = tempfile.mkdtemp(prefix="shangrla_mut_")
    res = {"name": m["name"], "checks": {}, "tests": None}
    try:
        shutil.copytree(os.path.join(REPO, "shangrla"), os.path.join(d, "shangrla"))
        for sub in m["subs"]:
            p = os.path.join(d, sub["file"])
            s = open(p).read()
            if s.count(sub["old"]) != sub.get("count", 1):
                res["error"] = f"pattern occurs {s.count(sub['old'])}x in {sub['file']}: {sub['old'][:60]!r}"
                return res
            open(p, "w").write(s.replace(sub["old"], sub["new"]))
        env = dict(os.environ, SHANGRLA_REPO=d, PYTHONDONTWRITEBYTECODE="1", VERIF_SEED=str(args.seed),
                   VERIF_EVIDENCE_DIR=os.path.join(d, "evidence"), VERIF_FOUND_DIR=os.path.join(d, "found"))
        if args.tests:
            shutil.copytree(os.path.join(REPO, "tests"), os.path.join(d, "tests"))
            for f in ("pytest.ini", "setup.cfg", "pyproject.toml", "conftest.py"):
                if os.path.exists(os.path.join(REPO, f)):
                    shutil.copy(os.path.join(REPO, f), d)
            e2 = dict(env, PYTHONPATH=d)
            r = subprocess.run([PY, "-m", "pytest", "-q", "-p", "no:cacheprovider", "-x", "--timeout=900"], cwd=d, env=e2,
                               capture_output=True, text=True)
            tail = r.stdout.strip().splitlines()[-1] if r.stdout.strip() else r.stderr[-200:]
            res["tests"] = {"exit": r.returncode, "tail": tail}
        props = m["properties"] if not args.props else [p for p in m["properties"] if p in args.props.split(",")]
        for pid in props:
            t0 = time.time()
            r = subprocess.run([PY, os.path.join(ROOT, "run_check.py"), pid, "--tier", "quick", "--jobs", str(args.check_jobs)],
                               cwd=ROOT, env=env, capture_output=True, text=True)
            viol = [l for l in r.stdout.splitlines() if l.startswith("VIOLATION")]
            clause = [l.strip() for l in r.stdout.splitlines() if l.strip().startswith("clause=")]
            res["checks"][pid] = {"exit": r.returncode, "violations": len(viol), "first": clause[0][:160] if clause else "",
                                  "wall_s": round(time.time() - t0, 1), "stderr": r.stderr[-300:] if r.returncode == 2 else ""}
    finally:
        shutil.rmtree(d, ignore_errors=True)
    return res


def main():
    ap = argparse.ArgumentParser()
    ap.add_argument("--only")
    ap.add_argument("--props")
    ap.add_argument("--tests", action="store_true")
    ap.add_argument("--jobs", type=int, default=4)
    ap.add_argument("--check-jobs", type=int, default=4)
    ap.add_argument("--seed", type=int, default=1)
    args = ap.parse_args()
    muts = json.load(open(os.path.join(ROOT, "mutants", "mutants.json")))
    if args.only:
        muts = [m for m in muts if args.only in m["name"]]
    if args.props:
        muts = [m for m in muts if set(m["properties"]) & set(args.props.split(","))]
    with ThreadPoolExecutor(args.jobs) as ex:
        results = list(ex.map(lambda m: run_one(m, args), muts))
    lines = []
    missed = 0
    for r in results:
        if "error" in r:
            lines.append(f"| {r['name']} | ERROR {r['error']} | | |")
            missed += 1
            continue
        t = "" if r["tests"] is None else ("tests green" if r["tests"]["exit"] == 0 else f"TESTS FAIL: {r['tests']['tail']}")
        for pid, c in r["checks"].items():
            verdict = "caught" if c["exit"] == 1 else ("MISSED" if c["exit"] == 0 else f"HARNESS-ERROR {c['stderr'][-120:]}")
            if c["exit"] != 1:
                missed += 1
            lines.append(f"| {r['name']} | {pid} | {verdict} ({c['wall_s']}s) {c['first']} | {t} |")
    print("\n".join(lines))
    with open(os.path.join(ROOT, "mutants", "RESULTS.md"), "a") as fh:
        fh.write(f"\n### run {time.strftime('%Y-%m-%d %H:%M')} seed={args.seed} filter={args.only or args.props or 'all'}\n\n")
        fh.write("| mutant | property | quick check | repository tests |\n|---|---|---|---|\n")
        fh.write("\n".join(lines) + "\n")
    print(f"{missed} not caught")
    return 1 if missed else 0


if __name__ == "__main__":
    sys.exit(main())
