"""Regenerates MANIFEST.json from the check modules present under checks/ (keeps it valid at all times)."""
import importlib
import json
import os
import sys

ROOT = os.path.dirname(os.path.dirname(os.path.abspath(__file__)))
sys.path.insert(0, ROOT)
from harness import boot

boot.bootstrap()
props = [json.loads(l) for l in open(os.path.join(ROOT, "properties.jsonl"))]
PY = "/venv/bin/python"
LEVEL = {
 "C01": "Exact per generated case: the real test is run on every distinct ordering (or every IID path) of a generated null population and P(min p <= alpha) is compared with alpha for every attained alpha with exact rational arithmetic - no Monte-Carlo error. Bounded search over populations (N<=7 arbitrary, <=12 few-valued, <=40 skewed, IID horizon<=9) and configurations, so exploration, not proof; long-sample behaviour is argued from C05+C12+C13.",
 "C02": "Generated ballot collections against an independent integer tally; iff-relations decided exactly (values are multiples of 1/2, shares are Fractions). Exploration over generated inputs: right level for a universally quantified input property with a cheap exact oracle.",
 "C03": "Algebraic identity evaluated on generated CVR/MVR populations with phantoms, pooled batches, both style settings and all assorter kinds, including earlier planning passes on other CVR lists. Exploration; the identity is checked to 1e-9 on each case.",
 "C04": "Differential test against brute force over all n! elimination orders and all true NEB/NEN assertions (<=6 candidates): soundness, sufficiency and emptiness-iff-impossible decided exactly per generated profile. Exploration bounded by candidate count.",
 "C05": "Metamorphic relations (prefix invariance under tail replacement, truncation, reuse of the same object/array, dtype) with bit-for-bit equality. Exploration over generated samples and cut points.",
 "C06": "Generated audits run through the documented pipeline; range predicate plus independent recomputation of which cards contribute and of their values. Exploration.",
 "C07": "Reference model (union of each contest's first n_c cards in sample-number order) on generated card lists incl. 256-bit close sample numbers and earlier draws on the same contests. Exploration.",
 "C08": "Accounting model for make_phantoms and a worst-case metamorphic relation for unfindable cards. Exploration.",
 "C09": "Differential re-run of each assertion's configured test on its own data, and an exact iff oracle for completion incl. p-values exactly at the limit and second computations without reset. Exploration.",
 "C10": "Rule-based state machine over audit histories (rounds x redraw/continue) with invariants after every round; histories shrink as one value. Exploration of histories up to 10 rounds.",
 "C11": "Validity predicate on generated (configuration, sample) pairs stressing every region the property names. Exploration.",
 "C12": "Differential test against reference products written from the published formulas (rtol 1e-9). Exploration.",
 "C13": "Range predicates on shipped estimators/bets incl. tolerance-sized overshoots. Exploration.",
 "C14": "The n<=4 sub-domain (every partial ranking x pair x eliminated set) is enumerated completely on every run; beyond it generated rankings, files and profiles. Exploration overall (exhaustive only for that sub-domain).",
 "C15": "Brute-force minimax optimum vs. the search result (<=6 candidates), incl. extra auditable ballots, hints and earlier searches on the same objects. Exploration.",
 "C16": "Reference construction of the documented hypothetical population and first-crossing oracle; integer equality. Exploration.",
 "C17": "Reference model: manifest expanded into a list of cards; bijection checked on permutations of all valid sample numbers. Exploration.",
 "C18": "Ordered-dict reference model for merging and the RAIRE reader. Exploration.",
 "C19": "Grammar-generated exports vs. a reference reader plus order metamorphisms. Exploration.",
 "C20": "Definition-level reference for every node plus brute force over all (n-1)! orders (<=6 candidates). Exploration.",
}
checks, na = [], []
for p in props:
    pid = p["id"]
    mods = [f for f in os.listdir(os.path.join(ROOT, "checks")) if f.lower().startswith(pid.lower()) and f.endswith(".py")]
    if not mods:
        na.append({"property_id": pid, "reason": "check not built yet (planned in DESIGN.md section 4); not claimed until it exists and is quiet on the unchanged tree"})
        continue
    m = importlib.import_module("checks." + mods[0][:-3])
    checks.append({
        "property_id": pid,
        "quick_cmd": f"{PY} run_check.py {pid} --tier quick",
        "thorough_cmd": f"{PY} run_check.py {pid} --tier thorough",
        "evidence_file": f"evidence/{pid}.json",
        "replay_cmd_template": f"{PY} run_check.py {pid} --replay {{path}}",
        "engine": "pbt-runner",
        "level_claimed": {
            "category": "exploration",
            "text": getattr(m, "LEVEL_TEXT", LEVEL.get(pid, "Bounded generated-input search against an explicit oracle; no violation found is not a proof of absence.")),
            "design_ref": f"DESIGN.md section 4 ({pid})",
        },
        "level_note": "Trusted: the oracle/reference model in checks/ and oracles/, Hypothesis, numpy; input domains as listed in the evidence file's assumptions.",
        "technique": getattr(m, "TECHNIQUE", "property-based testing (Hypothesis) against an explicit oracle"),
    })
man = {
    "version": 1,
    "setup_cmd": f"{PY} tools/setup.py",
    "hooks": {
        "guard": "SHANGRLA_VERIF",
        "enable": "no hooks exist: every property is observed through public return values; checks import shangrla from /repo's working tree (SHANGRLA_REPO overrides) in a fresh process",
        "baseline_off_cmd": "cd /repo && /venv/bin/python -m pytest -ra -q -p no:cacheprovider --timeout=900 --continue-on-collection-errors",
        "source_commits": [],
        "add_only": True,
    },
    "engines": [{
        "name": "pbt-runner", "path": "run_check.py",
        "serves_properties": [c["property_id"] for c in checks],
        "kind_free_text": "Hypothesis 6.168 property-based testing / rule-based state machines, exact enumeration of small finite domains, reference-model and metamorphic oracles; sharded over 16 processes",
    }],
    "checks": checks,
    "not_applicable": na,
    "notes": "See DESIGN.md. known_findings.json lists repaired (fixed:) and open findings; seeded/ holds independently written breaking changes and which checks catch them.",
}
json.dump(man, open(os.path.join(ROOT, "MANIFEST.json"), "w"), indent=1)
print(f"{len(checks)} checks, {len(na)} not claimed")
