"""Regenerates MANIFEST.json from the check modules present under checks/ (keeps it valid at all times)."""
import importlib
import json
import os
import sys

ROOT = os.path.dirname(os.path.dirname(os.path.abspath(__file__)))
sys.path.insert(0, ROOT)
from harness import boot

boot.bootstrap()
props = [json.loads(l) for l in open(os.path.join(ROOT, "properties.jsonl"))]
PY = "/venv/bin/python"
checks, na = [], []
for p in props:
    pid = p["id"]
    mods = [f for f in os.listdir(os.path.join(ROOT, "checks")) if f.lower().startswith(pid.lower()) and f.endswith(".py")]
    if not mods:
        na.append({"property_id": pid, "reason": "check not built yet (planned in DESIGN.md section 4); not claimed until it exists and is quiet on the unchanged tree"})
        continue
    m = importlib.import_module("checks." + mods[0][:-3])
    checks.append({
        "property_id": pid,
        "quick_cmd": f"{PY} run_check.py {pid} --tier quick",
        "thorough_cmd": f"{PY} run_check.py {pid} --tier thorough",
        "evidence_file": f"evidence/{pid}.json",
        "replay_cmd_template": f"{PY} run_check.py {pid} --replay {{path}}",
        "engine": "pbt-runner",
        "level_claimed": {
            "category": "exploration",
            "text": getattr(m, "LEVEL_TEXT", "Bounded generated-input search against an explicit oracle; no violation found is not a proof of absence."),
            "design_ref": f"DESIGN.md section 4 ({pid})",
        },
        "level_note": "Trusted: the oracle/reference model in checks/ and oracles/, Hypothesis, numpy; input domains as listed in the evidence file's assumptions.",
        "technique": getattr(m, "TECHNIQUE", "property-based testing (Hypothesis) against an explicit oracle"),
    })
man = {
    "version": 1,
    "setup_cmd": f"{PY} tools/setup.py",
    "hooks": {
        "guard": "SHANGRLA_VERIF",
        "enable": "no hooks exist: every property is observed through public return values; checks import shangrla from /repo's working tree (SHANGRLA_REPO overrides) in a fresh process",
        "baseline_off_cmd": "cd /repo && /venv/bin/python -m pytest -ra -q -p no:cacheprovider --timeout=900 --continue-on-collection-errors",
        "source_commits": [],
        "add_only": True,
    },
    "engines": [{
        "name": "pbt-runner", "path": "run_check.py",
        "serves_properties": [c["property_id"] for c in checks],
        "kind_free_text": "Hypothesis 6.168 property-based testing / rule-based state machines, exact enumeration of small finite domains, reference-model and metamorphic oracles; sharded over 16 processes",
    }],
    "checks": checks,
    "not_applicable": na,
    "notes": "See DESIGN.md. known_findings.json lists repaired (fixed:) and open findings; seeded/ holds independently written breaking changes and which checks catch them.",
}
json.dump(man, open(os.path.join(ROOT, "MANIFEST.json"), "w"), indent=1)
print(f"{len(checks)} checks, {len(na)} not claimed")
