#!/bin/bash
# tools/seed_own.sh [parallel] [regex]  -- every seeded change x its OWN property's quick check, on scratch worktrees of /repo HEAD under /tmp
# (the cheap regression to run after a check was changed; tools/seed_matrix.sh is the full cross table).
# Output: seeded/OWN.md (VERIF_SEED unset or 1) or seeded/OWN_seed<N>.md. Nothing is written to /repo; every worktree is removed again.
par=${1:-5}; rx=${2:-.}
cd /verif
one() {
  x=$1; own=${x:0:3}; wt=/tmp/own_$x; out=/tmp/own_out/$x; mkdir -p $out
  git -C /repo worktree add -q --detach $wt HEAD 2>/dev/null || { echo "$x WORKTREE-FAILED"; return; }
  if ! git -C $wt apply /verif/seeded/$x/patch.diff 2>/dev/null; then echo "$x APPLY-FAILED"; git -C /repo worktree remove --force $wt; return; fi
  r=$(SHANGRLA_REPO=$wt VERIF_EVIDENCE_DIR=$out/ev VERIF_FOUND_DIR=$out/found /venv/bin/python /verif/run_check.py $own --tier quick --jobs 4 2>&1); rc=$?
  echo "$x $own=$rc $(echo "$r" | grep -m1 -E 'clause=|HARNESS' | tr -s ' ' | cut -c1-140)"
  git -C /repo worktree remove --force $wt
  rm -rf $out
}
export -f one
mkdir -p /tmp/own_out
ls seeded | grep -E '^C[0-9]+[a-z]?$' | grep -E "$rx" | xargs -P $par -I{} bash -c 'one {}' > /tmp/own_out/raw.txt 2>&1
/venv/bin/python - <<'PY'
import re, subprocess
rows=[l.rstrip("\n").split(" ",2) for l in open('/tmp/own_out/raw.txt') if re.match(r'^C\d+[a-z]? ', l)]
head=subprocess.run(["git","-C","/repo","log","--oneline","-1"],capture_output=True,text=True).stdout.strip()
vh=subprocess.run(["git","-C","/verif","log","--oneline","-1"],capture_output=True,text=True).stdout.strip()
out=[f"# Seeded changes x their own property's quick check\n\n/repo HEAD `{head}`; /verif `{vh}` (plus uncommitted changes, if any); VERIF_SEED={__import__('os').environ.get('VERIF_SEED','1')}. exit 1 = violation reported (caught), 0 = quiet, 2 = harness error.\n",
     "| seeded | own check | first clause reported |", "|---|---|---|"]
miss=[]
for r in sorted(rows, key=lambda r:(r[0][:3], r[0])):
    x=r[0]; rc=r[1].split("=")[-1] if len(r)>1 and "=" in r[1] else r[1] if len(r)>1 else "?"
    if rc!="1": miss.append(x)
    out.append(f"| {x} | {r[1] if len(r)>1 else ''} | {(r[2] if len(r)>2 else '').replace('|','/')} |")
out.append(f"\n{len(rows)} seeded changes; {len(rows)-len(miss)} reported by their own property's quick check; not reported: {', '.join(miss) or 'none'}.")
import os
sd=os.environ.get('VERIF_SEED','1')
open('/verif/seeded/OWN.md' if sd=='1' else f'/verif/seeded/OWN_seed{sd}.md','w').write("\n".join(out)+"\n")
print(out[-1])
PY
