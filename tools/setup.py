"""MANIFEST.setup_cmd: make sure the framework can run offline from files on disk."""
import os
import sys

sys.path.insert(0, os.path.dirname(os.path.dirname(os.path.abspath(__file__))))
from harness import boot

boot.ensure_deps(install=True)
repo = boot.bootstrap()
import hypothesis, numpy, shangrla  # noqa
print(f"setup ok: hypothesis {hypothesis.__version__}, numpy {numpy.__version__}, shangrla from {repo}")
for d in ("evidence", ".work", "replays/found"):
    os.makedirs(os.path.join(boot.VERIF, d), exist_ok=True)
