#!/bin/bash
# run every quick (or $1=thorough) check once at VERIF_SEED; print one line per check
tier=${1:-quick}
cd /verif
for c in $(/venv/bin/python -c "import json;print(' '.join(c['property_id'] for c in json.load(open('MANIFEST.json'))['checks']))"); do
  s=$(date +%s); out=$(/venv/bin/python run_check.py $c --tier $tier 2>&1); rc=$?; e=$(date +%s)
  echo "$c rc=$rc $((e-s))s $(echo "$out" | grep -E "^$c|VIOLATION|KNOWN|HARNESS" | head -3 | tr '\n' ' ')"
done
