"""Process bootstrap: environment, dependency path, import of the code under test.

Every check process calls `bootstrap()` before importing hypothesis or shangrla.
Nothing here writes into /repo (PYTHONDONTWRITEBYTECODE) and the code under test is
always imported from the *current working tree* of $SHANGRLA_REPO (default /repo).
"""
import os
import subprocess
import sys
import warnings

VERIF = os.path.dirname(os.path.dirname(os.path.abspath(__file__)))
DEPS = os.path.join(VERIF, ".deps")
WHEELS = "/opt/veriftools/wheels"
GUARD = "SHANGRLA_VERIF"


def repo_path() -> str:
    return os.path.abspath(os.environ.get("SHANGRLA_REPO", "/repo"))


def ensure_env_and_reexec():
    """Re-exec once so PYTHONHASHSEED / bytecode settings hold for the whole process tree."""
    want = {"PYTHONHASHSEED": "0", "PYTHONDONTWRITEBYTECODE": "1", GUARD: "1"}
    if all(os.environ.get(k) == v for k, v in want.items()):
        return
    env = dict(os.environ)
    env.update(want)
    env.setdefault("PYTHONWARNINGS", "ignore")
    os.execve(sys.executable, [sys.executable] + sys.argv, env)


def ensure_deps(install: bool = True) -> None:
    """Make `hypothesis` importable; install it offline into /verif/.deps if it is not."""
    if os.path.isdir(DEPS) and DEPS not in sys.path:
        sys.path.insert(1, DEPS)
    try:
        import hypothesis  # noqa: F401
        return
    except ImportError:
        if not install:
            raise
    os.makedirs(DEPS, exist_ok=True)
    cmd = [sys.executable, "-m", "pip", "install", "--quiet", "--no-index",
           "--find-links", WHEELS, "--target", DEPS, "hypothesis"]
    subprocess.run(cmd, check=True, stdout=subprocess.DEVNULL)
    if DEPS not in sys.path:
        sys.path.insert(1, DEPS)
    import hypothesis  # noqa: F401


def bootstrap():
    warnings.simplefilter("ignore")
    sys.dont_write_bytecode = True
    repo = repo_path()
    if repo not in sys.path:
        sys.path.insert(0, repo)
    if VERIF not in sys.path:
        sys.path.insert(1, VERIF)
    ensure_deps()
    import shangrla  # noqa
    f = os.path.abspath(shangrla.__file__)
    if not f.startswith(repo + os.sep):
        raise RuntimeError(f"shangrla imported from {f}, expected under {repo}")
    return repo
