"""Shared machinery for the SHANGRLA property checks (see DESIGN.md section 2)."""
