"""Runner: shards a check over worker processes, drives Hypothesis, buckets failures,
writes replay files and the evidence file.  See DESIGN.md 2.2-2.5.

A check module (checks/cNN.py) provides
    ID            property id
    RULE          how cases are generated and what makes one non-trivial
    ASSUMPTIONS   list of input-domain assumptions (DESIGN 2.6)
    shards(tier)  list of dicts: {"name", "examples", optional "budget_s", anything else}
    strategy(shard)  Hypothesis strategy of JSON-serialisable cases
    evaluate(case, out)  runs the code under test + oracle, reporting through `out`
optionally
    machine(shard)   a RuleBasedStateMachine class factory (histories); the machine calls
                     harness.core.record_case(case, out) itself at teardown
    TECHNIQUE, LEVEL_TEXT
"""
import hashlib
import importlib
import json
import math
import os
import sys
import time
import traceback
import zlib
from collections import Counter

from . import boot

VERIF = boot.VERIF


# --------------------------------------------------------------------------- outcome


class Outcome:
    """What one evaluated case produced."""

    def __init__(self):
        self.failures = []  # list of {"clause":..., "detail":...}
        self.classes = []
        self.nontrivial = False
        self.enumerated = 0
        self.skipped = Counter()  # judged-not clauses, e.g. rounding-dependent premises

    def fail(self, clause, detail=None):
        self.failures.append({"clause": clause, "detail": _short(detail)})

    def expect(self, cond, clause, detail=None):
        if not cond:
            self.fail(clause, detail() if callable(detail) else detail)
        return bool(cond)

    def cls(self, *names):
        for n in names:
            if n not in self.classes:
                self.classes.append(n)

    def skip(self, what):
        self.skipped[what] += 1

    def lib_exception(self, clause, exc):
        """An exception raised by the code under test on an in-domain input."""
        self.fail(f"{clause}:exception:{type(exc).__name__}@{_innermost_lib_frame(exc)}", repr(exc))


def _short(x, n=600):
    if x is None:
        return None
    s = x if isinstance(x, str) else repr(x)
    return s if len(s) <= n else s[:n] + "...<truncated>"


def _innermost_lib_frame(exc):
    tb = traceback.extract_tb(exc.__traceback__)
    repo = boot.repo_path()
    name = "?"
    for fr in tb:
        if fr.filename.startswith(repo):
            name = f"{os.path.basename(fr.filename)}:{fr.name}"
    return name


def has_lib_frame(exc):
    repo = boot.repo_path()
    return any(fr.filename.startswith(repo) for fr in traceback.extract_tb(exc.__traceback__))


class PropertyViolation(Exception):
    pass


class HarnessError(Exception):
    pass


# --------------------------------------------------------------------------- json helpers


def to_jsonable(x):
    """Canonical JSON-able form (numpy scalars/arrays, Fractions, tuples, sets)."""
    import fractions

    try:
        import numpy as np
    except ImportError:  # pragma: no cover
        np = None
    if isinstance(x, dict):
        return {str(k): to_jsonable(v) for k, v in x.items()}
    if isinstance(x, (list, tuple)):
        return [to_jsonable(v) for v in x]
    if isinstance(x, (set, frozenset)):
        return sorted((to_jsonable(v) for v in x), key=lambda v: json.dumps(v, sort_keys=True))
    if isinstance(x, fractions.Fraction):
        return f"{x.numerator}/{x.denominator}"
    if np is not None:
        if isinstance(x, np.ndarray):
            return [to_jsonable(v) for v in x.tolist()]
        if isinstance(x, np.generic):
            return to_jsonable(x.item())
    if isinstance(x, (str, int, float, bool)) or x is None:
        return x
    return repr(x)


def case_hash(case):
    s = json.dumps(to_jsonable(case), sort_keys=True, default=repr)
    return hashlib.blake2b(s.encode(), digest_size=8).hexdigest()


def summarise(x, maxlist=14, maxstr=200):
    """Readable, bounded-size rendering of a case for evidence samples."""
    x = to_jsonable(x)
    if isinstance(x, dict):
        items = list(x.items())
        out = {k: summarise(v, maxlist, maxstr) for k, v in items[:40]}
        if len(items) > 40:
            out["..."] = f"+{len(items) - 40} more keys"
        return out
    if isinstance(x, list):
        out = [summarise(v, maxlist, maxstr) for v in x[:maxlist]]
        if len(x) > maxlist:
            out.append(f"...+{len(x) - maxlist} more")
        return out
    if isinstance(x, str) and len(x) > maxstr:
        return x[:maxstr] + "..."
    if isinstance(x, float) and (math.isnan(x) or math.isinf(x)):
        return repr(x)
    return x


def _finite(x):
    """strict-JSON safe copy (NaN / inf rendered as strings)."""
    if isinstance(x, dict):
        return {k: _finite(v) for k, v in x.items()}
    if isinstance(x, list):
        return [_finite(v) for v in x]
    if isinstance(x, float) and (math.isnan(x) or math.isinf(x)):
        return repr(x)
    return x


# --------------------------------------------------------------------------- shard state


class ShardState:
    def __init__(self, check, shard, tier, deadline):
        self.check = check
        self.shard = shard
        self.tier = tier
        self.deadline = deadline
        self.evaluations = 0
        self.hashes = set()
        self.classes = Counter()
        self.skipped = Counter()
        self.samples = {}
        self.enumerated = 0
        self.excluded_known = Counter()
        self.last_failure = None
        self.budget_exhausted = False
        self.after_deadline = 0

    def record(self, case, out, known):
        """Book-keeping for one evaluated case; raises PropertyViolation on a new failure."""
        self.evaluations += 1
        self.enumerated += out.enumerated
        for c in out.classes:
            self.classes[c] += 1
        self.skipped.update(out.skipped)
        fresh = []
        for f in out.failures:
            k = known.match(self.check.ID, case, f)
            if k is not None:
                self.excluded_known[k] += 1
            else:
                fresh.append(f)
        if out.nontrivial:
            h = case_hash(case)
            if h not in self.hashes:
                self.hashes.add(h)
                key = out.classes[0] if out.classes else "_"
                for c in out.classes:
                    if c not in self.samples:
                        key = c
                        break
                if key not in self.samples and len(self.samples) < 12:
                    self.samples[key] = summarise(case)
        if fresh:
            self.last_failure = {"case": to_jsonable(case), "failures": fresh}
            raise PropertyViolation(fresh[0]["clause"])

    def result(self):
        return {
            "shard": self.shard.get("name"),
            "evaluations": self.evaluations,
            "hashes": sorted(self.hashes),
            "classes": dict(self.classes),
            "skipped": dict(self.skipped),
            "samples": self.samples,
            "enumerated": self.enumerated,
            "excluded_known": dict(self.excluded_known),
            "budget_exhausted": self.budget_exhausted,
        }


_CURRENT = None  # ShardState of this worker process (state machines use it)


def current_state():
    return _CURRENT


def safe_evaluate(check, case):
    """evaluate(case) -> Outcome.  An exception with a frame inside the code under test is
    the library's (a failure of the property whose value it prevents from existing); an
    exception with no such frame is a bug in the harness/oracle (exit 2)."""
    out = Outcome()
    try:
        check.evaluate(case, out)
    except PropertyViolation:
        raise
    except Exception as e:  # noqa
        if has_lib_frame(e):
            out.lib_exception("unexpected", e)
        else:
            raise HarnessError(
                f"oracle/harness exception on case {_short(to_jsonable(case), 2000)}:\n"
                + "".join(traceback.format_exception(e))
            ) from e
    return out


def shard_seed(check_id, verif_seed, index):
    return (verif_seed * 1_000_003 + index * 7919 + zlib.crc32(check_id.encode())) % (2**62)


def run_shard(args):
    """Executed in a worker process."""
    global _CURRENT
    mod_name, shard, index, verif_seed, tier = args
    boot.bootstrap()
    import hypothesis
    from hypothesis import HealthCheck, Phase, Verbosity, given, settings
    from hypothesis.internal.conjecture import engine
    from .findings import KnownFindings

    check = importlib.import_module(mod_name)
    known = KnownFindings.load()
    budget = shard.get("budget_s", 120 if tier == "quick" else 1500)
    st = ShardState(check, shard, tier, time.time() + budget)
    _CURRENT = st
    engine.MAX_SHRINKING_SECONDS = 20 if tier == "quick" else 120
    sd = shard_seed(check.ID, verif_seed, index)
    sett = settings(
        max_examples=int(shard["examples"]),
        database=None,
        deadline=None,
        derandomize=False,
        report_multiple_bugs=False,
        suppress_health_check=list(HealthCheck),
        phases=(Phase.explicit, Phase.generate, Phase.target, Phase.shrink),
        verbosity=Verbosity.quiet,
        stateful_step_count=int(shard.get("steps", 8)),
    )
    t0 = time.time()
    failure = None
    error = None
    try:
        if hasattr(check, "machine") and shard.get("machine"):
            from hypothesis.stateful import run_state_machine_as_test

            M = check.machine(shard)
            run_state_machine_as_test(hypothesis.seed(sd)(M), settings=sett)
        else:
            strat = check.strategy(shard)

            @hypothesis.seed(sd)
            @sett
            @given(strat)
            def prop(case):
                if time.time() > st.deadline:
                    st.budget_exhausted = True
                    st.after_deadline += 1
                    return
                out = safe_evaluate(check, case)
                st.record(case, out, known)

            prop()
    except PropertyViolation:
        failure = st.last_failure
    except HarnessError as e:
        error = str(e)
    except Exception as e:  # noqa  (Flaky, Unsatisfiable, generator bugs ...)
        if st.last_failure is not None and type(e).__name__ in ("Flaky", "FlakyFailure", "FlakyReplay"):
            failure = dict(st.last_failure, note="hypothesis reported the failure as flaky")
        else:
            error = "".join(traceback.format_exception(e))
    res = st.result()
    res.update({"index": index, "seed": sd, "wall_s": time.time() - t0, "failure": failure, "error": error})
    return res


# --------------------------------------------------------------------------- replay


def replay_case(check, case, known):
    """Evaluate one stored case.  Returns (fresh_failures, known_hits, outcome)."""
    out = safe_evaluate(check, case)
    fresh, hits = [], []
    for f in out.failures:
        k = known.match(check.ID, case, f)
        (hits if k is not None else fresh).append((k, f))
    return [f for _, f in fresh], hits, out


def load_replay(path):
    with open(path) as fh:
        doc = json.load(fh)
    if "case" not in doc:
        raise HarnessError(f"replay file {path} has no 'case'")
    return doc


def write_replay(check_id, name, doc):
    d = os.path.join(os.environ.get("VERIF_FOUND_DIR") or os.path.join(VERIF, "replays", "found"), check_id)
    os.makedirs(d, exist_ok=True)
    p = os.path.join(d, name + ".json")
    with open(p, "w") as fh:
        json.dump(doc, fh, indent=1, sort_keys=True, default=repr)
    return p


# --------------------------------------------------------------------------- main


def load_check(check_id):
    boot.bootstrap()
    name = None
    for f in sorted(os.listdir(os.path.join(VERIF, "checks"))):
        if f.lower().startswith(check_id.lower()) and f.endswith(".py"):
            name = "checks." + f[:-3]
    if name is None:
        raise HarnessError(f"no check module for {check_id}")
    return name, importlib.import_module(name)


def main(argv=None):
    import argparse

    ap = argparse.ArgumentParser()
    ap.add_argument("id")
    ap.add_argument("--tier", default=os.environ.get("VERIF_TIER", "quick"), choices=["quick", "thorough"])
    ap.add_argument("--replay")
    ap.add_argument("--seed", type=int, default=None)
    ap.add_argument("--jobs", type=int, default=int(os.environ.get("VERIF_JOBS", "16")))
    ap.add_argument("--only-shard", default=None, help="debug: run only shards whose name contains this")
    ap.add_argument("--scale", type=float, default=float(os.environ.get("VERIF_SCALE", "1")),
                    help="multiply every shard's example count")
    a = ap.parse_args(argv)
    try:
        seed = a.seed if a.seed is not None else int(os.environ.get("VERIF_SEED", "1") or 1)
    except ValueError:
        seed = zlib.crc32(os.environ["VERIF_SEED"].encode())
    try:
        return _main(a, seed)
    except HarnessError as e:
        print(f"HARNESS-ERROR: {e}", file=sys.stderr)
        return 2
    except Exception:  # noqa
        traceback.print_exc()
        return 2


def _main(a, seed):
    from .findings import KnownFindings

    t0 = time.time()
    mod_name, check = load_check(a.id)
    pid = check.ID
    known = KnownFindings.load()

    if a.replay:
        doc = load_replay(a.replay)
        fresh, hits, _ = replay_case(check, doc["case"], known)
        for k, f in hits:
            print(f"KNOWN-FINDING: property={pid} {known.describe(k)} [{f['clause']}]")
        if fresh:
            print(f"VIOLATION property={pid} replay={os.path.abspath(a.replay)}")
            for f in fresh:
                print(f"  clause={f['clause']} detail={f['detail']}")
            return 1
        print(f"replay {a.replay}: property {pid} holds on this case")
        return 0

    violations = []  # (signature, replay_path, failures)
    seen_sig = set()
    known_lines = []

    # 1. committed replays: regression inputs (must pass) and witnesses of open findings
    rdir = os.path.join(VERIF, "replays", pid)
    n_replayed = 0
    witness_paths = known.witnesses(pid)
    if os.path.isdir(rdir):
        for f in sorted(os.listdir(rdir)):
            if not f.endswith(".json"):
                continue
            p = os.path.join(rdir, f)
            doc = load_replay(p)
            fresh, hits, _ = replay_case(check, doc["case"], known)
            n_replayed += 1
            if os.path.relpath(p, VERIF) in witness_paths:
                k = witness_paths[os.path.relpath(p, VERIF)]
                if any(h[0] == k for h in hits):
                    known_lines.append(f"KNOWN-FINDING: property={pid} {known.describe(k)}")
                else:
                    print(f"note: witness {f} of open finding {k} no longer fails (finding may be repaired)")
            if fresh:
                sig = fresh[0]["clause"]
                if sig not in seen_sig:
                    seen_sig.add(sig)
                    violations.append((sig, p, fresh))

    # 2. generated search
    shards = check.shards(a.tier)
    if a.only_shard:
        shards = [s for s in shards if a.only_shard in s.get("name", "")]
    for s in shards:
        s["examples"] = max(1, int(s["examples"] * a.scale))
    jobs = [(mod_name, s, i, seed, a.tier) for i, s in enumerate(shards)]
    results = []
    if a.jobs <= 1 or len(jobs) == 1:
        results = [run_shard(j) for j in jobs]
    else:
        import multiprocessing as mp
        from concurrent.futures import ProcessPoolExecutor

        with ProcessPoolExecutor(max_workers=min(a.jobs, len(jobs)), mp_context=mp.get_context("fork")) as ex:
            results = list(ex.map(run_shard, jobs))

    errors = [r for r in results if r["error"]]
    if errors:
        for r in errors:
            print(f"HARNESS-ERROR in shard {r['shard']}:\n{r['error']}", file=sys.stderr)
        return 2

    evaluations = sum(r["evaluations"] for r in results)
    hashes = set()
    classes = Counter()
    skipped = Counter()
    excluded = Counter()
    samples = {}
    for r in results:
        hashes.update(r["hashes"])
        classes.update(r["classes"])
        skipped.update(r["skipped"])
        excluded.update(r["excluded_known"])
        for k, v in r["samples"].items():
            if k not in samples and len(samples) < 10:
                samples[k] = v
        if r["failure"]:
            sig = r["failure"]["failures"][0]["clause"]
            if sig in seen_sig:
                continue
            seen_sig.add(sig)
            doc = {
                "property": pid, "tier": a.tier, "verif_seed": seed, "shard": r["shard"],
                "case": r["failure"]["case"], "failures": r["failure"]["failures"],
                "note": r["failure"].get("note"),
            }
            name = f"{a.tier}-seed{seed}-{r['shard']}-{hashlib.blake2b(sig.encode(), digest_size=4).hexdigest()}"
            p = write_replay(pid, name, doc)
            violations.append((sig, p, r["failure"]["failures"]))

    wall = time.time() - t0
    sample_list = [{"class": k, "case": v} for k, v in samples.items()]
    if not sample_list:
        sample_list = [{"class": "none", "case": "no non-trivial case was generated"}]
    ev = {
        "property_id": pid,
        "tier": a.tier,
        "seed": seed,
        "level": "exploration",
        "coverage": {
            "evaluations": evaluations,
            "distinct_nontrivial": len(hashes),
            "rule": check.RULE,
            "samples": sample_list,
            "classes": dict(sorted(classes.items())),
            "enumerated_inner_evaluations": sum(r["enumerated"] for r in results),
            "skipped_not_judged": dict(skipped),
            "excluded_known": dict(excluded),
            "replayed_committed_cases": n_replayed,
            "shards": [
                {"name": r["shard"], "evaluations": r["evaluations"], "wall_s": round(r["wall_s"], 2),
                 "budget_exhausted": r["budget_exhausted"]} for r in results
            ],
            "exhaustive": bool(getattr(check, "EXHAUSTIVE", False)),
            "technique": getattr(check, "TECHNIQUE", "property-based testing (Hypothesis) against an explicit oracle"),
        },
        "assumptions": list(check.ASSUMPTIONS),
        "wall_s": round(wall, 2),
        "violations": len(violations),
    }
    evdir = os.environ.get("VERIF_EVIDENCE_DIR") or os.path.join(VERIF, "evidence")
    os.makedirs(evdir, exist_ok=True)
    tmp = os.path.join(evdir, f".{pid}.{os.getpid()}.tmp")
    with open(tmp, "w") as fh:
        json.dump(_finite(ev), fh, indent=1, default=repr, allow_nan=False)
    os.replace(tmp, os.path.join(evdir, f"{pid}.json"))

    for line in sorted(set(known_lines)):
        print(line)
    print(f"{pid} [{a.tier}] seed={seed}: {evaluations} cases, {len(hashes)} distinct non-trivial, "
          f"{sum(excluded.values())} in known-finding regions, {len(violations)} violation(s), {wall:.1f}s")
    if any(r["budget_exhausted"] for r in results):
        print("note: time budget reached in "
              + ", ".join(r["shard"] for r in results if r["budget_exhausted"]) + " (inconclusive there, not a violation)")
    for sig, p, fs in violations:
        print(f"VIOLATION property={pid} replay={p}")
        for f in fs[:3]:
            print(f"  clause={f['clause']} detail={f['detail']}")
    return 1 if violations else 0
