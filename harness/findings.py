"""Known findings (DESIGN 2.5).  The committed file known_findings.json is read, never written.

An *open* entry names a region predicate (below).  A failure produced by a check is
attributed to the entry only if the predicate recognises that (case, failure) pair; any other
failure of the same property is still a VIOLATION.  *fixed* entries suppress nothing.
"""
import json
import os

from .boot import VERIF

PREDICATES = {}


def predicate(name):
    def deco(fn):
        PREDICATES[name] = fn
        return fn
    return deco


class KnownFindings:
    def __init__(self, entries):
        self.entries = entries
        self.open = [e for e in entries if e.get("status") == "open"]

    @classmethod
    def load(cls):
        p = os.path.join(VERIF, "known_findings.json")
        if not os.path.exists(p):
            return cls([])
        with open(p) as fh:
            doc = json.load(fh)
        return cls(doc.get("findings", []))

    def match(self, pid, case, failure):
        for e in self.open:
            if pid not in e.get("properties", [e.get("property")]):
                continue
            fn = PREDICATES.get(e["predicate"])
            if fn is not None and fn(case, failure):
                return e["key"]
        return None

    def describe(self, key):
        for e in self.entries:
            if e.get("key") == key:
                return e.get("what", key)
        return key

    def witnesses(self, pid):
        out = {}
        for e in self.open:
            if pid in e.get("properties", [e.get("property")]):
                for w in e.get("witnesses", {}).get(pid, []):
                    out[w] = e["key"]
        return out


# ------------------------------------------------------------------ region predicates
# (added together with the finding they describe; each must be as narrow as the defect)
