#!/venv/bin/python
"""Entry point:  run_check.py <ID> [--tier quick|thorough] [--replay FILE]

exit 0  property held on everything explored (KNOWN-FINDING lines may be printed)
exit 1  at least one line  VIOLATION property=<ID> replay=<path>
exit 2  harness error (never a violation)
"""
import os
import sys

sys.path.insert(0, os.path.dirname(os.path.abspath(__file__)))
from harness import boot  # noqa: E402

if __name__ == "__main__":
    boot.ensure_env_and_reexec()
    from harness import core

    sys.exit(core.main())
