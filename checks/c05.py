"""C05  Non-anticipation: the p-value after j draws depends only on those j draws."""
import math

from hypothesis import strategies as st

from oracles.nonneg_ref import as_list
from strategies import nonneg

ID = "C05"
TECHNIQUE = "metamorphic relation (prefix invariance under tail replacement / truncation) over Hypothesis-generated samples"
RULE = (
    "case = (configuration, sample x, cut k with 1<=k<len(x), replacement tail y); relations: history(x)[:k] == "
    "history(x[:k]+y)[:k] bit-for-bit; history(x[:k]) agrees with history(x) on k-1 entries and is <= on the k-th "
    "(equal if the total is below N t by slack, 0 if above by slack); estim/bet sequences agree on k+1 entries. "
    "Non-trivial = y differs from x[k:], k>=2, and the estimator/bet is adaptive or N is finite. distinct = canonical JSON."
)
ASSUMPTIONS = [
    "parameter domains as for C11; samples no longer than the population",
    "prefix equality is exact (same IEEE operations on the same prefix), NaN == NaN",
    "the 'can only lower the k-th entry' clause is decided only when the prefix total differs from N t by more than 1e-9 relative",
]


def shards(tier):
    n = 1500 if tier == "quick" else 20000
    return [{"name": f, "family": f, "examples": n} for f in nonneg.FAMILIES]


def strategy(shard):
    @st.composite
    def case(draw):
        near = draw(st.integers(0, 3)) == 0 and not (shard["family"].endswith("-inf") or shard["family"] in ("km", "kw"))
        cfg = draw(nonneg.config(shard["family"], min_N=3, max_N=14 if near else 60))
        N = cfg["N"]
        if near:
            # a small population sampled (almost) to exhaustion, good draws first: the point at which the null becomes
            # certain (S_k + (N-k)u < N t) is then reached while the history may still be below 1
            u, t = cfg["u"], cfg["t"]
            amax = max(1, int(N * t / u))
            a = draw(st.one_of(st.sampled_from([amax, amax, max(1, amax - 1)]), st.integers(1, amax)))
            head = [u] * a + [draw(st.sampled_from([u / 2, u / 4, t, 0.0])) for _ in range(draw(st.integers(0, 2)))]
            x = (head + [draw(st.sampled_from([0.0, 0.0, 0.0, u / 8])) for _ in range(N)])[: draw(st.integers(max(2, N - 2), N))]
            x = [float(v) for v in x]
        elif draw(st.integers(0, 60)) == 0 and (cfg["estim"] == "shrink_trunc" or cfg["bet"] == "agrapa" or draw(st.booleans())):
            # a sample of more than a thousand draws (runs of a few values), cut just before / at / after 1024 or 2048 draws:
            # what has been reported for the first k draws does not depend on how long the sample has become since
            n = draw(st.sampled_from([1030, 1100, 2050, 2100]))
            vals = [draw(nonneg._value(cfg["u"], cfg["t"])) for _ in range(4)]
            run = draw(st.sampled_from([1, 3, 37]))
            x = [float(vals[(i // run) % 4]) for i in range(n)]
            k = draw(st.sampled_from([c for c in (1000, 1023, 1024, 1025, 1029, 2047, 2048, 2049, n - 1) if c < n]))
            y = [float(v) for v in draw(st.lists(nonneg._value(cfg["u"], cfg["t"]), min_size=1, max_size=6))]
            if N is not None:
                cfg["N"] = n + 10 + draw(st.integers(0, 500))
            return {"cfg": cfg, "x": x, "k": k, "y": y}
        else:
            x = draw(nonneg.sample(cfg, min_size=2, max_size=40))
        if len(x) < 2:
            x = x + [draw(nonneg._value(cfg["u"], cfg["t"]))]
        k = draw(st.integers(1, len(x) - 1))
        room = 12 if N is None else min(12, N - k)
        y = draw(st.lists(nonneg._value(cfg["u"], cfg["t"]), min_size=1, max_size=max(1, room)))
        return {"cfg": cfg, "x": x, "k": k, "y": [float(v) for v in y]}

    return case()


def _exact_tie(prefix, N, t):
    """total == N t exactly, with every number on the 1/64 grid (then the library's float sum is exact too)"""
    from fractions import Fraction

    if not all((float(v) * 64).is_integer() for v in prefix) or not (float(t) * 64).is_integer():
        return False
    return sum(Fraction(v) for v in prefix) == Fraction(t) * N


def _same(a, b):
    return a == b or (math.isnan(a) and math.isnan(b))


def evaluate(case, out):
    import numpy as np

    cfg, x, k, y = case["cfg"], case["x"], case["k"], case["y"]
    N, t = cfg["N"], cfg["t"]
    out.cls(cfg["family"])
    x2 = x[:k] + y
    adaptive = cfg["estim"] in ("shrink_trunc",) or cfg["bet"] in ("agrapa",)
    if y != x[k:k + len(y)] and k >= 2 and (adaptive or N is not None):
        out.nontrivial = True
    if adaptive:
        out.cls("adaptive")
    test = nonneg.make_test(cfg)

    def hist(v, t=None):
        p, h = (t or nonneg.make_test(cfg)).test(nonneg.natural(v))
        return as_list(h, len(v))

    try:
        hx, hx2, hk = hist(x), hist(x2), hist(x[:k])
        # the same object used for successive rounds (as Assertion.test is): first the k draws, then all of them
        reused = nonneg.make_test(cfg)
        hk_r = hist(x[:k], reused)
        hx_r = hist(x, reused)
        # and the same sample held as floats instead of its natural (possibly integer) dtype
        arr = np.array(x, dtype=float)
        keep = arr.copy()
        tf = nonneg.make_test(cfg)
        hx_f = as_list(tf.test(arr)[1], len(x))
        hx_f2 = as_list(tf.test(arr)[1], len(x))   # the same array object evaluated again
        out.expect(bool(np.array_equal(arr, keep)), "test-alters-the-callers-sample", lambda: (arr.tolist()[:6], keep.tolist()[:6]))
        out.expect(all(_same(a, b) for a, b in zip(hx_f, hx_f2)), "second-evaluation-of-the-same-array-differs", lambda: (hx_f[:5], hx_f2[:5]))
    except Exception as e:  # noqa
        out.lib_exception("test", e)
        return
    for j in range(len(x)):
        if not out.expect(_same(hx[j], hx_r[j]), "history-depends-on-an-earlier-call-on-the-same-object", lambda: (j, hx[j], hx_r[j], k)):
            break
    for j in range(k):
        if not out.expect(_same(hk[j], hk_r[j]), "first-round-history-differs-on-a-fresh-object", lambda: (j, hk[j], hk_r[j])):
            break
    for j in range(len(x)):
        if not out.expect(_same(hx[j], hx_f[j]) or abs(hx[j] - hx_f[j]) <= 1e-12 * max(abs(hx[j]), 1e-300),
                          "history-depends-on-the-dtype-of-the-sample", lambda: (j, hx[j], hx_f[j])):
            break
    if all(float(v).is_integer() for v in x[:k]) and not all(float(v).is_integer() for v in x2):
        out.cls("integer-prefix-fractional-tail")
    # (a) agreement on the common prefix
    for j in range(k):
        if not out.expect(_same(hx[j], hx2[j]), "history-depends-on-later-draws", lambda: (j, hx[j], hx2[j], k)):
            break
    # (b) truncation
    for j in range(k - 1):
        if not out.expect(_same(hk[j], hx[j]), "truncation-changes-earlier-entries", lambda: (j, hk[j], hx[j], k)):
            break
    a, b = hk[k - 1], hx[k - 1]
    if not (math.isnan(a) or math.isnan(b)):
        out.expect(a <= b, "truncation-raises-last-entry", lambda: (a, b, k))
        if N is not None:
            S = math.fsum(x[:k])
            if S < N * t * (1 - 1e-9) - 1e-12:
                out.expect(a == b, "truncation-lowers-last-entry-below-null-total", lambda: (a, b, S, N * t))
                out.cls("total<Nt")
            elif S > N * t * (1 + 1e-9) + 1e-12 and cfg["test"] in ("alpha_mart", "betting_mart"):
                out.expect(a == 0, "total-exceeds-Nt-but-p-not-0", lambda: (a, S, N * t))
                out.cls("total>Nt")
            else:
                out.skip("total-within-rounding-of-Nt")
        else:
            out.expect(a == b, "truncation-changes-last-entry-iid", lambda: (a, b, k))
    # (b') the truncation relation at every cut point (the boundary draw at which the null becomes certain is a single index)
    if N is not None:
        for kk in range(1, len(x) + 1):
            if math.fsum(x[:kk]) + (N - kk) * cfg["u"] < N * t * (1 - 1e-9) and not math.isnan(hx[kk - 1]) and hx[kk - 1] < 1:
                out.cls("null-certain-at-a-cut-while-history<1")
                break
    try:
        # (every cut of an ordinary sample; for a sample of a thousand draws or more, cuts around the round numbers)
        cuts = range(1, len(x)) if len(x) <= 200 else sorted({c for c in (1, 2, 100, 255, 256, 257, 1000, 1023, 1024, 1025, 1026, 2047, 2048, 2049, len(x) - 1) if c < len(x)})
        for kk in cuts:
            if kk == k:
                continue
            hkk = hist(x[:kk])
            if not out.expect(all(_same(hkk[j], hx[j]) for j in range(kk - 1)), "truncation-changes-earlier-entries", lambda: (kk, hkk[: kk - 1][-3:], hx[: kk - 1][-3:])):
                break
            a2, b2 = hkk[kk - 1], hx[kk - 1]
            if not (math.isnan(a2) or math.isnan(b2)):
                if not out.expect(a2 <= b2, "truncation-raises-last-entry", lambda: (a2, b2, kk)):
                    break
                if N is not None and _exact_tie(x[:kk], N, t):
                    # the total sits exactly on the most the null allows: the null can still be true, nothing is decided
                    out.cls("prefix-total==Nt-exactly")
                    if not out.expect(a2 == b2, "truncation-at-a-tie-with-the-null-total-changes-the-last-entry", lambda: (a2, b2, kk)):
                        break
    except Exception as e:  # noqa
        out.lib_exception("test", e)
        return
    # (c) estimator / bet sequences
    xa, xa2 = nonneg.natural(x), nonneg.natural(x2)
    for name, fn in (("estim", test.estim), ("bet", test.bet)):
        if name == "estim" and cfg["test"] != "alpha_mart":
            continue
        if name == "bet" and cfg["test"] != "betting_mart":
            continue
        try:
            e1, e2 = as_list(fn(xa), len(x)), as_list(fn(xa2), len(x2))
        except Exception as e:  # noqa
            out.lib_exception(name, e)
            return
        for j in range(min(k + 1, len(e1), len(e2))):
            if not out.expect(_same(e1[j], e2[j]), f"{name}-anticipates", lambda: (j, e1[j], e2[j], k)):
                break
        try:  # a second request on the same object must give the same sequence
            e3 = as_list(fn(xa), len(x))
        except Exception as e:  # noqa
            out.lib_exception(name, e)
            return
        out.expect(all(_same(a, b) for a, b in zip(e1, e3)), f"{name}-changes-between-calls-on-the-same-object", lambda: (e1[:5], e3[:5]))
