"""C07  Consistent sampling gives every contest the first cards of its own random order."""
import copy

from hypothesis import strategies as st

from strategies import audit as sa

ID = "C07"
TECHNIQUE = "reference model (union over contests of the first n_c cards in sample-number order) on Hypothesis-generated card lists; metamorphic determinism checks"
RULE = (
    "case = card list (1..30 cards, arbitrary styles incl. cards listing no audited contest, phantoms) for 1-3 contests + "
    "distinct sample numbers + sizes 0<=n_c<=#cards listing c + a seed. Oracle: selected == union_c first n_c cards listing c, "
    "sorted by sample number, no repeats; threshold_c == number of c's n_c-th card; cvr.sampled exactly on the union; "
    "mvrs_to_data(c) == overstatement values of exactly those n_c cards in order; sample numbers depend on (seed, position) "
    "only (also for records that already carry a number, from an import or an earlier seed); selection invariant under replacing vote contents. Non-trivial = >=2 contests with different styles and some card "
    "skipped by the walk before the last selected one. distinct = canonical JSON."
)
ASSUMPTIONS = [
    "sample numbers are distinct; sizes do not exceed the cards available for the contest",
    "contest dict keys equal contest ids",
    "the threshold of a contest with n_c = 0 is not defined by the property and is not judged",
]


def shards(tier):
    n = 500 if tier == "quick" else 12000
    return [{"name": f"{k}contests-{i}", "ncon": k, "examples": n} for k in (1, 2, 3) for i in (1, 2)] + \
           [{"name": "determinism", "ncon": 2, "det": True, "examples": n // 2}]


def strategy(shard):
    @st.composite
    def case(draw):
        scn = draw(sa.scenario(n_contests=(shard["ncon"], shard["ncon"]), kinds=["plurality"], audit_types=("CARD_COMPARISON",),
                               use_style=True, n_cards=(1, 30), with_pools=False, p_missing=0.45))
        scn["plan"] = draw(sa.sampling_plan(scn))
        scn["seed"] = draw(st.integers(0, 2 ** 64))
        return scn

    return case()


def evaluate(case, out):
    import numpy as np
    from cryptorandom.cryptorandom import SHA256
    from shangrla.core.Audit import CVR

    try:
        audit, contests, cvrs, mvrs = sa.build(case)
    except Exception as e:  # noqa
        out.lib_exception("build", e)
        return
    cids = list(contests)
    # the bookkeeping make_phantoms leaves on the contests: cards = records listing the contest (phantoms included),
    # cvrs = real CVRs listing it; sample sizes are bounded by the former
    for cid, con in contests.items():
        con.cards = sum(1 for c in cvrs if c.has_contest(cid))
        con.cvrs = sum(1 for c in cvrs if c.has_contest(cid) and not c.phantom)
    flags_kept = False
    if case["seed"] % 4 == 1:
        # the very same list was drawn from before under trial numbers (e.g. a rehearsal seed)
        try:
            for c, s in zip(cvrs, reversed(case["plan"]["sample_nums"])):
                c.sample_num = s
            for cid, con in contests.items():
                con.sample_size = min(2, sum(1 for c in cvrs if c.has_contest(cid)))
            CVR.consistent_sampling(cvrs, contests)
            if case["seed"] % 8 == 1:
                for c in cvrs:
                    c.sampled = False
            else:
                # the cards keep the marks of the trial draw: what was drawn before is what the caller hands over
                # (nothing here), not what the cards happen to be marked with
                flags_kept = True
                out.cls("trial-draw-marks-left-on-the-cards")
            out.cls("same-list-drawn-before-under-other-numbers")
        except Exception as e:  # noqa
            out.lib_exception("consistent_sampling(trial)", e)
            return
    sizes = sa.apply_plan(case, case["plan"], cvrs, contests, min_size=0)
    nums = [c.sample_num for c in cvrs]
    order = sorted(range(len(cvrs)), key=lambda i: nums[i])
    per = {c: [i for i in order if cvrs[i].has_contest(c)][: sizes[c]] for c in cids}
    union = set().union(*[set(v) for v in per.values()]) if per else set()
    want = [i for i in order if i in union]
    own = None
    if case["seed"] % 5 == 3 and cids:
        # the caller keeps one list of the cards drawn so far (still empty) and hands it to every request; a first request
        # asks one contest for more cards than list it and is refused; the request is then made again with proper sizes
        own = []
        big = cids[case["seed"] % len(cids)]
        contests[big].sample_size = contests[big].cards + 1
        try:
            CVR.consistent_sampling(cvrs, contests, sampled_cvr_indices=own)
            own = []   # not refused: nothing is claimed about such a request; start over
            for c in cvrs:
                c.sampled = False
        except Exception:  # noqa
            out.cls("after-a-refused-request-with-the-same-list")
        for cid, con in contests.items():
            con.sample_size = sizes[cid]
    try:
        if case["seed"] % 2 == 0:
            # an earlier draw with the same Contest objects: every card, numbers in reverse order (fresh card objects)
            _, _, cv0, _ = sa.build(case)
            for c, s in zip(cv0, reversed(case["plan"]["sample_nums"])):
                c.sample_num = s
            for cid, con in contests.items():
                con.sample_size = sum(1 for c in cv0 if c.has_contest(cid))
            CVR.consistent_sampling(cv0, contests)
            for cid, con in contests.items():
                con.sample_size = sizes[cid]
            out.cls("after-an-earlier-draw")
        if case["seed"] % 2 == 1:
            # drawn in two steps: first some contests at full size and the others at a third, then - handing the first
            # selection back - the full sizes; the result is the selection for the full sizes
            for k, (cid, con) in enumerate(contests.items()):
                con.sample_size = sizes[cid] if (k + case["seed"] // 2) % 2 == 0 else sizes[cid] // 3
            first = CVR.consistent_sampling(cvrs, contests, sampled_cvr_indices=own)
            for cid, con in contests.items():
                con.sample_size = sizes[cid]
            got = CVR.consistent_sampling(cvrs, contests, sampled_cvr_indices=[int(i) for i in first])
            out.cls("drawn-in-two-steps")
        else:
            got = CVR.consistent_sampling(cvrs, contests, sampled_cvr_indices=own)
    except Exception as e:  # noqa
        out.lib_exception("consistent_sampling", e)
        return
    got = [int(i) for i in got]
    out.expect(len(set(got)) == len(got), "card-selected-twice", lambda: got)
    out.expect(got == want, "selection!=union-of-first-n_c", lambda: {"got": got, "want": want, "sizes": sizes})
    for c in cids:
        if sizes[c] > 0:
            thr = nums[per[c][-1]]
            out.expect(contests[c].sample_threshold == thr, "threshold!=number-of-n_c-th-card",
                       lambda: (c, contests[c].sample_threshold, thr, sizes[c]))
    if flags_kept:
        out.expect(all(bool(cvrs[i].sampled) for i in union), "sampled-flags", lambda: [c.sampled for c in cvrs])
    else:
        out.expect([bool(c.sampled) for c in cvrs] == [i in union for i in range(len(cvrs))], "sampled-flags", lambda: [c.sampled for c in cvrs])
    # data later used for each contest's assertions: exactly its n_c cards in order
    if got == want:
        cs = [cvrs[i] for i in got]
        ms = [mvrs[i] for i in got]
        if case["seed"] % 3 == 0 and got:
            # the CVRs of the selected cards as the vendor-specific lookup hands them back (identifiers are tabulator-batch-card)
            try:
                import numpy as np
                import pandas as pd
                from shangrla.formats.Dominion import Dominion

                batches = sorted({tuple(c.id.split("-")[:2]) for c in cvrs})
                man = pd.DataFrame([{"Tray #": 1, "Tabulator Number": tb, "Batch Number": b, "Total Ballots": 7, "VBMCart.Cart number": 3}
                                    for tb, b in batches])
                _, _, cs, _ = Dominion.sample_from_cvrs(cvrs, man, np.array(got))
                out.cls("sampled-cvrs-through-the-vendor-lookup")
            except Exception as e:  # noqa
                out.lib_exception("sample_from_cvrs", e)
                return
        for c in cids:
            if sizes[c] == 0:
                continue
            for key, a in contests[c].assertions.items():
                a.margin = 0.25
                try:
                    d, u = a.mvrs_to_data(ms, cs)
                    ref = [a.overstatement_assorter(mvrs[i], cvrs[i], use_style=True) for i in per[c]]
                except Exception as e:  # noqa
                    out.lib_exception("mvrs_to_data", e)
                    return
                out.expect(len(d) == len(ref) and all(abs(x - y) <= 1e-12 for x, y in zip(d, ref)), "contest-data!=its-first-n_c-cards",
                           lambda: (c, key, list(map(float, d))[:10], ref[:10]))
                break
    # non-triviality: different styles and a card skipped by the walk
    styles = {c: tuple(cvrs[i].has_contest(c) for i in range(len(cvrs))) for c in cids}
    if want:
        last = order.index(want[-1])
        skipped = any(i not in union for i in order[:last])
        if skipped:
            out.cls("card-skipped")
        if len(set(styles.values())) >= 2:
            out.cls("different-styles")
        out.nontrivial = skipped and len(set(styles.values())) >= 2
    if any(v == 0 for v in sizes.values()):
        out.cls("some-n_c=0")
    if any(not any(cvrs[i].has_contest(c) for c in cids) for i in range(len(cvrs))):
        out.cls("card-with-no-audited-contest")

    # selection depends on the records only through which contests each lists
    try:
        a2, con2, cv2, _ = sa.build(case)
        for c in cv2:
            c.votes = {k: {} for k in c.votes}
        sa.apply_plan(case, case["plan"], cv2, con2, min_size=0)
        got2 = [int(i) for i in CVR.consistent_sampling(cv2, con2)]
    except Exception as e:  # noqa
        out.lib_exception("consistent_sampling-on-emptied-votes", e)
        return
    out.expect(got2 == got, "selection-depends-on-vote-contents", lambda: (got, got2))

    # sample numbers: deterministic in (seed, position) only
    try:
        n = len(cvrs)
        l1 = [CVR(id=f"a{i}", votes=copy.deepcopy(cvrs[i].votes)) for i in range(n)]
        l2 = [CVR(id=f"zz{i}", votes={}, phantom=bool(i % 2)) for i in range(n)]
        l3 = [CVR(id=f"p{i}", votes={}) for i in range(max(1, n // 2))]
        CVR.assign_sample_nums(l1, SHA256(case["seed"]))
        CVR.assign_sample_nums(l2, SHA256(case["seed"]))
        CVR.assign_sample_nums(l3, SHA256(case["seed"]))
        CVR.assign_sample_nums(l1[:], SHA256(case["seed"]))  # idempotent re-assignment
        # records that already carry a number (imported with one, numbered under a rehearsal seed, ...) are numbered like
        # any others: the documented effect is "assigns (or overwrites)"
        l4 = [CVR(id=f"q{i}", votes={}, sample_num=(None if (i + case["seed"]) % 3 else 10 ** 9 + i)) for i in range(n)]
        CVR.assign_sample_nums(l4, SHA256(case["seed"]))
        l5 = [CVR(id=f"r{i}", votes={}) for i in range(n)]
        CVR.assign_sample_nums(l5, SHA256(case["seed"] + 1))
        CVR.assign_sample_nums(l5, SHA256(case["seed"]))
    except Exception as e:  # noqa
        out.lib_exception("assign_sample_nums", e)
        return
    s1, s2, s3 = [c.sample_num for c in l1], [c.sample_num for c in l2], [c.sample_num for c in l3]
    out.expect(s1 == s2, "sample-numbers-depend-on-record-contents", lambda: (s1[:3], s2[:3]))
    out.expect(s3 == s1[: len(s3)], "sample-numbers-of-a-prefix-depend-on-what-follows", lambda: (s3[:3], s1[:3]))
    out.expect(all(isinstance(s, int) for s in s1), "sample-number-type", lambda: s1[:3])
    s4, s5 = [c.sample_num for c in l4], [c.sample_num for c in l5]
    out.expect(s4 == s1, "sample-numbers-depend-on-numbers-already-present", lambda: (s4[:4], s1[:4]))
    out.expect(s5 == s1, "sample-numbers-after-re-seeding-differ-from-a-fresh-assignment", lambda: (s5[:4], s1[:4]))
