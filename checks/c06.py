"""C06  Data handed to a test always lie inside the bound the test is told."""
from hypothesis import strategies as st

from strategies import audit as sa

ID = "C06"
TECHNIQUE = "Hypothesis-generated audits run through the documented pipeline; range predicate plus reference recomputation of the contributing cards and their overstatement values"
RULE = (
    "case = audit scenario (1-3 contests: plurality / super-majority with any share / IRV; POLLING, CARD_COMPARISON, ONEAUDIT; "
    "style on/off; phantoms, pooled batches, MVRs with arbitrary discrepancies) + distinct sample numbers + per-contest sample "
    "sizes; pipeline: margins from CVRs -> consistent_sampling -> mvrs_to_data -> set_p_values. Only assertions with a "
    "positive margin are judged. Non-trivial = some datum equals 0 or u (within 1e-12), or a sampled card is excluded by the "
    "style/threshold filter. distinct = canonical JSON."
)
ASSUMPTIONS = [
    "sample sizes are between 1 and the number of cards listing the contest; sample numbers are distinct integers",
    "margins are positive (CVRs are generated to favour the reported winners; other assertions are skipped and counted)",
    "range judged with relative tolerance 1e-12; reference overstatement values compared at 1e-9",
]


def shards(tier):
    n = 200 if tier == "quick" else 4000
    out = []
    for at in ("POLLING", "CARD_COMPARISON", "ONEAUDIT"):
        for us in (True, False):
            for kinds in (["plurality"], ["super"], ["irv"], ["plurality", "super", "irv"]):
                out.append({"name": f"{at[:4]}-{'style' if us else 'nostyle'}-{'+'.join(k[:3] for k in kinds)}",
                            "audit_type": at, "use_style": us, "kinds": kinds, "examples": n})
    return out


def strategy(shard):
    @st.composite
    def case(draw):
        scn = draw(sa.scenario(n_contests=(1, 3) if len(shard["kinds"]) > 1 else (1, 2), kinds=shard["kinds"],
                               audit_types=(shard["audit_type"],), use_style=shard["use_style"], favour_winner=True,
                               n_cards=(4, 30)))
        scn["plan"] = draw(sa.sampling_plan(scn))
        return scn

    return case()


def evaluate(case, out):
    import contextlib
    import io

    import numpy as np
    from shangrla.core.Audit import Assertion, CVR

    us = case["use_style"]
    try:
        audit, contests, cvrs, mvrs = sa.build(case)
        for con in contests.values():
            if con.audit_type == "ONEAUDIT":
                for a in con.assertions.values():
                    if len(cvrs) % 2 == 0:
                        a.assorter.set_tally_pool_means(cvr_list=cvrs, use_style=us)
                    else:  # the labels of the pooled batches given explicitly, as the ONEAudit notebook does
                        a.assorter.set_tally_pool_means(cvr_list=cvrs, tally_pools=CVR.pool_contests(cvrs), use_style=us)
                    if len(cvrs) % 5 == 2 and any(c.pool for c in cvrs):
                        # a further call that names only the batch of the first pooled card is refused at the first pooled
                        # card of another batch; the auditor carries on with the means already set
                        try:
                            a.assorter.set_tally_pool_means(cvr_list=cvrs, tally_pools=[next(c.tally_pool for c in cvrs if c.pool)], use_style=us)
                            # accepted (no other batch lists the contest): the complete call again
                            a.assorter.set_tally_pool_means(cvr_list=cvrs, use_style=us)
                        except KeyError:
                            out.cls("after-a-refused-pool-means-call")
        Assertion.set_all_margins_from_cvrs(audit, contests, cvrs)
    except Exception as e:  # noqa
        out.lib_exception("setup", e)
        return
    # the bound is in the test as soon as the margins are set (the first sample-size estimate uses it, before any p-value)
    for cid, con in contests.items():
        for key, a in con.assertions.items():
            if a.margin is None or not np.isfinite(a.margin) or not (a.margin > 0):
                continue
            ub0 = a.assorter.upper_bound
            want0 = ub0 if con.audit_type == "POLLING" else 2 / (2 - a.margin / ub0)
            out.expect(abs(a.test.u - want0) <= 1e-12 * want0, "u-not-installed-when-margins-are-set", lambda: (cid, key, con.audit_type, a.test.u, want0))
    # the margins may afterwards be re-based on the reported tally (find_margin_from_tally): whatever margin is in force when
    # the data are made governs both the data and the bound returned with them
    if len(cvrs) % 4 == 3:
        from shangrla.core.Audit import Contest
        for cid, con in contests.items():
            if case["contests"][cid]["kind"] == "plurality" and con.cards:
                try:
                    Contest.tally({cid: con}, cvrs)
                    for a in con.assertions.values():
                        a.find_margin_from_tally()
                    out.cls("margins-re-based-on-the-tally")
                except Exception as e:  # noqa
                    out.lib_exception("find_margin_from_tally", e)
                    return
    # contests that cannot be sampled (no card lists them) are dropped, as an auditor would
    for cid in [c for c in contests if not any(cv.has_contest(c) for cv in cvrs)]:
        del contests[cid]
        out.skip("contest-on-no-card")
    if not contests:
        return
    sizes = sa.apply_plan(case, case["plan"], cvrs, contests)
    try:
        idx = CVR.consistent_sampling(cvrs, contests)
    except Exception as e:  # noqa
        out.lib_exception("consistent_sampling", e)
        return
    feats = set()
    if len(cvrs) % 3 == 1:
        # the sample as retrieved (by position in the list), not in selection order: which cards contribute does not
        # depend on how the sample is listed
        idx = sorted(int(i) for i in idx)
        feats.add("sample-listed-in-list-order")
    cs = [cvrs[i] for i in idx]
    ms = [mvrs[i] for i in idx]
    judged = 0
    expect_u = {}
    for cid, con in contests.items():
        spec = case["contests"][cid]
        out.cls(spec["kind"], con.audit_type)
        for key, a in con.assertions.items():
            v, ub = a.margin, a.assorter.upper_bound
            if not (v > 0):
                out.skip("nonpositive-margin")
                continue
            means = a.assorter.tally_pool_means or {}
            if any(c.pool and np.isnan(means.get(c.tally_pool, 0.0)) for c in cs if c.has_contest(cid) or not us):
                out.skip("nan-pool-mean")
                continue
            try:
                if len(cvrs) % 2 == 0 and len(cvrs) > len(cs):
                    # the data of another sample of the same size were asked for before (a simulated draw, an earlier
                    # selection): the cards that happen to come last in the list instead of the ones drawn
                    other = list(range(len(cvrs)))[-len(cs):]
                    try:
                        a.mvrs_to_data([mvrs[i] for i in other], [cvrs[i] for i in other], use_all=True)
                        a.mvrs_to_data([mvrs[i] for i in other], [cvrs[i] for i in other])
                        feats.add("after-another-sample-of-the-same-size")
                    except Exception:  # noqa  (that other sample may contain cards this one could not: not judged)
                        pass
                d, u = a.mvrs_to_data(ms, cs)
                d_all, u_all = a.mvrs_to_data(ms, cs, use_all=True)
            except Exception as e:  # noqa
                out.lib_exception("mvrs_to_data", e)
                return
            # use_all: the contest's threshold is ignored, every sampled card whose CVR lists the contest contributes
            if con.audit_type != "POLLING":
                want_n = sum(1 for c in cs if (c.has_contest(cid) or not us))
                out.expect(len(d_all) == want_n and abs(u_all - u) <= 1e-15, "use_all-does-not-take-every-sampled-card-of-the-contest",
                           lambda: (cid, key, len(d_all), want_n))
                out.expect(bool(np.all(np.asarray(d_all) >= 0)) and bool(np.all(np.asarray(d_all) <= u * (1 + 1e-12))), "use_all-data-outside-[0,u]",
                           lambda: (cid, key, list(map(float, d_all))[:8], u))
            d = np.asarray(d, dtype=float)
            judged += 1
            if con.audit_type == "POLLING":
                want_u = ub
                ref = [a.assorter.assort(m) for m in ms]
            else:
                want_u = 2 / (2 - v / ub)
                ref = []
                for m, c in zip(ms, cs):
                    if us and not (c.has_contest(cid) and c.sample_num <= con.sample_threshold):
                        feats.add("filtered-by-style-or-threshold")
                        continue
                    ma = 0.0 if (m.phantom or (us and not m.has_contest(cid))) else a.assorter.assort(m)
                    if c.pool and a.assorter.tally_pool_means is not None:
                        ca = a.assorter.tally_pool_means[c.tally_pool]
                    else:
                        ca = 0.5 if c.phantom else a.assorter.assort(c)
                    ref.append((1 - (ca - ma) / ub) / (2 - v / ub))
            expect_u[(cid, key)] = want_u
            out.expect(abs(u - want_u) <= 1e-12 * abs(want_u), "upper-bound", lambda: (cid, key, u, want_u, con.audit_type))
            if not out.expect(len(d) == len(ref), "contributing-cards", lambda: (cid, key, len(d), len(ref), us, con.sample_threshold)):
                continue
            out.expect(bool(np.all(np.abs(d - np.array(ref, dtype=float)) <= 1e-9)) if len(ref) else True, "data-values",
                       lambda: (cid, key, d.tolist()[:8], ref[:8]))
            out.expect(not np.isnan(d).any(), "data-nan", lambda: (cid, key, d.tolist()[:8]))
            out.expect(bool(np.all(d >= 0)) and bool(np.all(d <= u * (1 + 1e-12))), "data-outside-[0,u]",
                       lambda: (cid, key, float(np.min(d)), float(np.max(d)), u))
            if len(d) and (np.any(d <= 1e-12) or np.any(d >= u * (1 - 1e-12))):
                feats.add("datum-at-0-or-u")
    # u is installed in the test before p-values are computed
    if judged and all(a.margin > 0 for con in contests.values() for a in con.assertions.values()):
        try:
            # the state a tally-based workflow leaves behind: margin set (find_margin_from_tally) but the test still
            # carries the bound it was constructed with; set_p_values itself has to install u
            for con in contests.values():
                for a in con.assertions.values():
                    a.test.u = a.assorter.upper_bound
            with contextlib.redirect_stdout(io.StringIO()):
                Assertion.set_p_values(contests, ms, cs)
        except Exception as e:  # noqa
            out.lib_exception("set_p_values", e)
            return
        for cid, con in contests.items():
            for key, a in con.assertions.items():
                if (cid, key) in expect_u:
                    out.expect(abs(a.test.u - expect_u[(cid, key)]) <= 1e-12 * expect_u[(cid, key)], "u-not-installed-in-test",
                               lambda: (cid, key, a.test.u, expect_u[(cid, key)]))
        out.cls("set_p_values-run")
    out.cls(*sorted(feats))
    out.nontrivial = judged > 0 and bool(feats)
