"""C16  Sample-size estimates are first-crossing times on the assumed data."""
import math

from hypothesis import strategies as st

from strategies import nonneg

ID = "C16"
TECHNIQUE = "reference construction of the documented hypothetical population + first-crossing oracle, on Hypothesis-generated pilots, rates, tallies, seeds"
RULE = (
    "cases: pilot (non-constant pilot shorter than N, tiled); prefix (a prefix that already crosses at k, any seed / reps / "
    "quantile); comparison (plurality or super-majority assorter with bound u: clean value 1/(2-v/u), one-vote value (1/2)/(2-v/u) at every floor(1/r1)-th position from 0, 0 at "
    "every floor(1/r2)-th); polling (reported tallies interleaved); contest (estimate = max over assertions); audit (max over "
    "contests of the max over unconfirmed assertions, 0 for a contest confirmed since an earlier estimate); audit-oneaudit (first "
    "estimate of a ONEAudit: the CVRs' own overstatement values with one-/two-vote overstatements at the assumed rates, tiled); interleave "
    "(exact counts). Oracle: first index at which the same test's history on that population is <= the risk limit, else N. "
    "Non-trivial = the crossing happens strictly inside the population (1 < k < N) or never; for interleave = all three "
    "values requested. distinct = canonical JSON."
)
ASSUMPTIONS = [
    "population sizes are finite (sample_size() needs N to build the population); pilots are non-constant and shorter than N",
    "interleave_values is called with n_big >= 1, as every caller does; tallies give a positive margin",
    "error rates are 0 or in [1/N, 1]",
]
FAMS = ["alpha-fixed", "alpha-shrink", "bet-fixed", "bet-agrapa", "kk", "sprt-fin", "kw", "km"]
ALPHAS = [0.05, 0.05, 0.1, 0.01, 0.25]


def shards(tier):
    n = 1000 if tier == "quick" else 12000
    return [{"name": m, "mode": m, "examples": (n // 4 if m == "audit-oneaudit" else n // 2 if m == "contest-data" else n) if m != "interleave" else 4 * n}
            for m in ("pilot", "prefix", "comparison", "polling", "contest", "contest-data", "audit", "audit-oneaudit", "raire-estimator", "interleave")]


@st.composite
def _finite_cfg(draw, fams=FAMS):
    fam = draw(st.sampled_from(fams))
    cfg = draw(nonneg.config(fam, min_N=5, max_N=400))
    if cfg["N"] is None:
        cfg["N"] = draw(st.integers(5, 400))
    # (random_order stays as generated: the estimate is a first-crossing time of the *history*, whichever overall value the test reports)
    return cfg


def strategy(shard):
    mode = shard["mode"]

    @st.composite
    def boundary_pilot(draw):
        # p-values that hit the risk limit exactly: Kaplan-Markov / Kaplan-Wald with t=1/2, g=0 on values 1 give 2^-k
        fam = draw(st.sampled_from(["km", "kw"]))
        N = draw(st.integers(8, 60))
        cfg = {"family": fam, "test": "kaplan_markov" if fam == "km" else "kaplan_wald", "estim": None, "bet": None, "N": N,
               "u": 1.0, "t": 0.5, "random_order": True, "kw": {"g": 0}}
        k = draw(st.integers(1, 4))
        x = [1.0] * draw(st.integers(k, 6)) + [draw(st.sampled_from([0.5, 0.75, 1.0, 0.25]))]
        if len(set(x)) == 1:
            x[-1] = 0.5
        c = {"mode": mode, "cfg": cfg, "x": x[: N - 1], "alpha": 2.0 ** -k}
        if mode == "prefix":
            c.update(extra=draw(st.integers(0, 3)), reps=draw(st.integers(1, 5)), quantile=draw(st.floats(0.01, 0.99)),
                     seed=draw(st.integers(0, 2 ** 32 - 1)))
        return c

    @st.composite
    def pilot(draw):
        r = draw(st.integers(0, 5))
        if r == 0:
            return draw(boundary_pilot())
        cfg = draw(_finite_cfg())
        if mode == "pilot" and draw(st.integers(0, 25)) == 0:
            # a population of a few thousand and a pilot barely above the null mean: the first crossing comes late
            cfg["N"] = draw(st.sampled_from([1100, 1500, 1800, 2500, 3000, 3100]))
            u, t = cfg["u"], cfg["t"]
            d = draw(st.sampled_from([0.01, 0.02, 0.03, 0.05, 0.08, 0.12]))
            x = [min(u, t * (1 + 2 * d)), t, min(u, t * (1 + d))]
            return {"mode": mode, "cfg": cfg, "x": [float(v) for v in x], "alpha": draw(st.sampled_from(ALPHAS))}
        if r == 1:
            # front-loaded pilot: its large values come first, its mean is at most t - the history crosses early all the same
            N, u, t = cfg["N"], cfg["u"], cfg["t"]
            a = draw(st.integers(3, 9))
            b = draw(st.integers(a, 2 * a + 2))
            x = ([u] * a + [0.0] * b)[: N - 1]
            if len(set(x)) > 1:
                c = {"mode": mode, "cfg": cfg, "x": [float(v) for v in x], "alpha": draw(st.sampled_from(ALPHAS))}
                if mode == "prefix":
                    c.update(extra=draw(st.integers(0, 3)), reps=draw(st.integers(1, 5)), quantile=draw(st.floats(0.01, 0.99)),
                             seed=draw(st.integers(0, 2 ** 32 - 1)))
                return c
        N, u, t = cfg["N"], cfg["u"], cfg["t"]
        hi = st.floats(min(u, t * 1.05), u)
        val = st.one_of(st.sampled_from([u, u, 0.0, t, u / 2, (u + t) / 2]), hi, st.floats(0.0, u))
        x = draw(st.lists(val, min_size=2, max_size=min(N - 1, 12)))
        if len(set(x)) == 1:
            x[0] = 0.0 if x[0] != 0.0 else u
        c = {"mode": mode, "cfg": cfg, "x": [float(v) for v in x], "alpha": draw(st.sampled_from(ALPHAS))}
        if mode == "prefix":
            c.update(extra=draw(st.integers(0, 3)), reps=draw(st.integers(1, 5)), quantile=draw(st.floats(0.01, 0.99)),
                     seed=draw(st.integers(0, 2 ** 32 - 1)))
        return c

    @st.composite
    def contestcase(draw):
        N = draw(st.integers(10, 400))
        k = draw(st.integers(1, 3)) if mode in ("contest", "audit") else 1
        tw = draw(st.integers(N // 3, N - 1))
        rest = N - tw
        tl = [draw(st.integers(0, min(rest, tw - 1))) for _ in range(k)]
        while sum(tl) > rest:
            tl[tl.index(max(tl))] -= 1
        # (ONEAUDIT estimates at contest level need the CVRs themselves; that path is data-driven, not a construction)
        at = "POLLING" if mode == "polling" else draw(st.sampled_from(["CARD_COMPARISON", "ONEAUDIT"] if mode not in ("contest", "audit") else ["CARD_COMPARISON", "POLLING"]))
        tests = ["alpha-shrink", "alpha-shrink-d10", "alpha-fixed", "bet-agrapa", "bet-fixed", "kw", "km"] + ([] if at == "POLLING" else ["alpha-optcomp"])
        r1 = draw(st.sampled_from([0, 0.001, 0.01, 0.05, 0.2, 1.0])) if at != "POLLING" else None
        r2 = draw(st.sampled_from([0, 0, 0.001, 0.01, 0.1]))
        share = None
        if mode == "comparison" and at == "CARD_COMPARISON" and draw(st.integers(0, 2)) == 0:
            # a super-majority contest: the assorter's bound is 1/(2 share), not 1; documented constructions are in units of it
            from fractions import Fraction
            share = draw(st.sampled_from(["2/3", "3/5", "3/4", "1/4", "2/5"]))
            f = Fraction(share)
            cap = int(tw * (1 / f - 1))
            while cap >= 0 and not (Fraction(tw, tw + cap) > f):
                cap -= 1
            tl = [draw(st.integers(0, max(0, min(rest, cap))))]
        return {"mode": mode, "N": N, "tw": tw, "tl": tl, "audit_type": at, "test": draw(st.sampled_from(tests)),
                "risk_limit": draw(st.sampled_from(ALPHAS)), "rate_1": r1, "rate_2": r2, "share": share}

    if mode in ("pilot", "prefix"):
        return pilot()
    if mode == "contest-data":
        # a contest-level estimate from the cards inspected so far: every assertion's own data tiled to the population
        from strategies import audit as sa

        return st.fixed_dictionaries({"mode": st.just(mode),
                                      "scn": sa.scenario(n_contests=(1, 2), kinds=["plurality"], audit_types=("CARD_COMPARISON",), use_style=False,
                                                         n_cards=(6, 40), favour_winner=True, with_phantoms=False, with_pools=False, p_missing=0.0,
                                                         mvr_modes=("copy",) * 6 + ("other", "other", "phantom")),
                                      "take": st.floats(0.2, 1.0)})
    if mode == "audit-oneaudit":
        # the first estimate of a ONEAudit (no cards inspected yet): the CVRs' own overstatement values with one- and two-vote
        # overstatements placed at the assumed rates, tiled to the population size
        from strategies import audit as sa

        return st.fixed_dictionaries({"mode": st.just(mode),
                                      "scn": sa.scenario(n_contests=(1, 2), kinds=["plurality", "super"], audit_types=("ONEAUDIT",), use_style=False,
                                                         n_cards=(6, 40), favour_winner=True, with_phantoms=False, p_missing=0.0),
                                      "rate_1": st.sampled_from([0, 0.05, 0.1, 0.25, 0.5]), "rate_2": st.sampled_from([0, 0, 0.02, 0.1, 0.2, 0.34])})
    if mode in ("comparison", "polling", "contest", "audit"):
        return contestcase()
    if mode == "raire-estimator":
        @st.composite
        def rest(draw):
            N = draw(st.integers(10, 400))
            tw = draw(st.integers(N // 3, N - 1))
            tl = draw(st.integers(0, min(N - tw, tw - 1)))
            return {"mode": mode, "N": N, "tw": tw, "tl": tl, "polling": draw(st.booleans()),
                    "erate1": draw(st.sampled_from([0, 0.001, 0.01, 0.05, 0.2])), "erate2": draw(st.sampled_from([0, 0, 0.01, 0.1])),
                    "rlimit": draw(st.sampled_from(ALPHAS))}

        return rest()
    return st.fixed_dictionaries({"mode": st.just("interleave"), "n_small": st.integers(0, 40), "n_med": st.integers(0, 40),
                                  "n_big": st.integers(1, 40), "vals": st.sampled_from([[0, 0.5, 1], [0.1, 1, 2], [0, 0.5, 0.75]])})


def first_crossing(hist, alpha, N):
    for i, p in enumerate(hist):
        if p <= alpha:
            return i + 1
    return N


def _contest(case):
    from shangrla.core.Audit import Assertion, Audit, Contest
    from shangrla.core.NonnegMean import NonnegMean
    from strategies.audit import TESTS

    t = TESTS[case["test"]]
    losers = [f"L{i}" for i in range(len(case["tl"]))]
    tally = {"W": case["tw"], **{l: v for l, v in zip(losers, case["tl"])}}
    d = {"name": "C", "risk_limit": case["risk_limit"], "cards": case["N"], "choice_function": "SUPERMAJORITY" if case.get("share") else "PLURALITY", "n_winners": 1,
         "candidates": ["W"] + losers, "winner": ["W"], "audit_type": case["audit_type"], "test": getattr(NonnegMean, t["test"]),
         "estim": getattr(NonnegMean, t["estim"]) if t.get("estim") else None, "bet": getattr(NonnegMean, t["bet"]) if t.get("bet") else None,
         "test_kwargs": dict(t["kw"]), "use_style": True, "g": 0.1, "tally": tally}
    if case.get("share"):
        from fractions import Fraction
        d["share_to_win"] = float(Fraction(case["share"]))
    contests = Contest.from_dict_of_dicts({"C": d})
    Assertion.make_all_assertions(contests)
    con = contests["C"]
    con.find_margins_from_tally()
    for a in con.assertions.values():
        a.test.u = 1 if case["audit_type"] == "POLLING" else 2 / (2 - a.margin / a.assorter.upper_bound)
    audit = Audit.from_dict({"quantile": 0.8, "error_rate_1": case["rate_1"] or 0, "error_rate_2": case["rate_2"] or 0, "reps": None,
                             "sim_seed": 1, "strata": {"s": {"max_cards": case["N"], "use_style": True}}})
    return audit, con


def _population(case, a):
    """the hypothetical population the documentation describes for one assertion."""
    import numpy as np

    N = case["N"]
    v = a.margin
    if case["audit_type"] == "POLLING":
        n0, nb = case["tl"][int(a.loser[1:])], case["tw"]
        nh = N - n0 - nb
        # loser votes are 0, winner votes are the upper bound, everything else 1/2, interleaved
        want = {0.0: n0, 0.5: nh, 1.0: nb}
        return None, want
    # documented: values of the overstatement assorter for overstatements of 0, u/2 (one vote) and u (two votes)
    ub = a.assorter.upper_bound
    x = np.full(N, 1 / (2 - v / ub))
    if case["rate_1"]:
        x[np.arange(0, N, int(1 / case["rate_1"]))] = 0.5 / (2 - v / ub)
    if case["rate_2"]:
        x[np.arange(0, N, int(1 / case["rate_2"]))] = 0.0
    return x, None


def evaluate(case, out):
    import copy

    import numpy as np

    mode = case["mode"]
    out.cls(mode)
    if mode == "interleave":
        from shangrla.core.Audit import Assertion

        s, m, b = case["vals"]
        try:
            y = Assertion.interleave_values(case["n_small"], case["n_med"], case["n_big"], small=s, med=m, big=b)
        except Exception as e:  # noqa
            out.lib_exception("interleave_values", e)
            return
        # the returned array is the caller's: what the caller does to it afterwards cannot influence a later request
        try:
            if isinstance(y, np.ndarray) and y.flags.writeable:
                keep = y.copy()
                y[:] = -1
                y = Assertion.interleave_values(case["n_small"], case["n_med"], case["n_big"], small=s, med=m, big=b)
                out.expect(bool(np.array_equal(np.asarray(y), keep)), "interleave-result-depends-on-what-a-caller-did-to-an-earlier-result",
                           lambda: (np.asarray(y)[:6].tolist(), keep[:6].tolist()))
        except Exception as e:  # noqa
            out.lib_exception("interleave_values(second)", e)
            return
        y = np.asarray(y, dtype=float)
        got = (int(np.sum(y == s)), int(np.sum(y == m)), int(np.sum(y == b)))
        out.expect(len(y) == case["n_small"] + case["n_med"] + case["n_big"] and got == (case["n_small"], case["n_med"], case["n_big"]),
                   "interleave-counts", lambda: (got, (case["n_small"], case["n_med"], case["n_big"])))
        out.nontrivial = case["n_small"] > 0 and case["n_med"] > 0
        return
    if mode == "contest-data":
        from strategies import audit as sa
        from shangrla.core.Audit import Assertion

        scn = case["scn"]
        try:
            audit, contests, cvrs, mvrs = sa.build(scn)
            Assertion.set_all_margins_from_cvrs(audit, contests, cvrs)
        except Exception as e:  # noqa
            out.lib_exception("setup", e)
            return
        if not all(a.margin > 0 for con in contests.values() for a in con.assertions.values()):
            out.skip("nonpositive-margin")
            return
        k = max(1, int(len(cvrs) * case["take"]))
        cs, ms = cvrs[:k], mvrs[:k]
        audit.reps = None
        for cid, con in contests.items():
            wants = {}
            try:
                for key, a in con.assertions.items():
                    d = np.array(a.mvrs_to_data(ms, cs)[0], dtype=float)      # (C06's business)
                    N = int(a.test.N)
                    pop = np.tile(d, math.ceil(N / len(d)))[:N]
                    hist = np.asarray(copy.deepcopy(a.test).test(pop)[1], dtype=float)
                    wants[key] = first_crossing(hist, con.risk_limit, N)
                got = con.find_sample_size(audit, mvr_sample=ms, cvr_sample=cs)
            except Exception as e:  # noqa
                out.lib_exception("find_sample_size", e)
                return
            out.expect(int(got) == max(wants.values()) and int(con.sample_size) == int(got), "contest-estimate-from-data!=max-over-assertions",
                       lambda: {"contest": cid, "got": int(got), "want": wants})
            per = {key: int(a.sample_size) for key, a in con.assertions.items()}
            out.expect(per == wants, "assertion-estimate-from-data!=first-crossing-on-its-own-data", lambda: {"contest": cid, "got": per, "want": wants})
            margins = [a.margin for a in con.assertions.values()]
            if len(set(margins)) < len(margins):
                out.cls("assertions-with-equal-margins")
                if len(set(wants.values())) > 1:
                    out.cls("equal-margins-different-estimates")
            out.nontrivial = out.nontrivial or len(set(wants.values())) > 1
        return
    if mode == "audit-oneaudit":
        from strategies import audit as sa

        scn = case["scn"]
        try:
            audit, contests, cvrs, _ = sa.build(scn)
            for con in contests.values():
                for a in con.assertions.values():
                    a.assorter.set_tally_pool_means(cvr_list=cvrs, use_style=False)
            from shangrla.core.Audit import Assertion
            Assertion.set_all_margins_from_cvrs(audit, contests, cvrs)
        except Exception as e:  # noqa
            out.lib_exception("setup", e)
            return
        if not all(a.margin > 0 for con in contests.values() for a in con.assertions.values()):
            out.skip("nonpositive-margin")
            return
        for con in contests.values():
            for a in con.assertions.values():
                means = a.assorter.tally_pool_means or {}
                if any(c.pool and np.isnan(means.get(c.tally_pool, 0.0)) for c in cvrs):
                    out.skip("nan-pool-mean")
                    return
        audit.error_rate_1, audit.error_rate_2, audit.reps = case["rate_1"], case["rate_2"], None
        wants = {}
        try:
            for cid, con in contests.items():
                w = 0
                for key, a in con.assertions.items():
                    d, _u = a.mvrs_to_data(cvrs, cvrs, use_all=True)     # (what these values are is C06's business)
                    d = np.array(d, dtype=float)
                    if case["rate_1"]:
                        d[np.arange(0, len(d), math.floor(1 / case["rate_1"]))] = 0.5 / (2 - a.margin / a.assorter.upper_bound)   # overstatement u/2
                    if case["rate_2"]:
                        d[np.arange(0, len(d), math.floor(1 / case["rate_2"]))] = 0.0   # the largest possible overstatement
                    N = int(a.test.N)
                    pop = np.tile(d, math.ceil(N / len(d)))[:N]
                    hist = np.asarray(copy.deepcopy(a.test).test(pop)[1], dtype=float)
                    w = max(w, first_crossing(hist, con.risk_limit, N))
                wants[cid] = w
            total = audit.find_sample_size(contests, cvrs=cvrs)
        except Exception as e:  # noqa
            out.lib_exception("find_sample_size", e)
            return
        got = {cid: int(con.sample_size) for cid, con in contests.items()}
        out.expect(got == wants and int(total) == max(wants.values()), "oneaudit-first-estimate!=first-crossing-on-assumed-data",
                   lambda: {"got": got, "want": wants, "total": int(total), "rates": (case["rate_1"], case["rate_2"])})
        out.cls("rates-differ" if case["rate_2"] and math.floor(1 / case["rate_2"]) != (math.floor(1 / case["rate_1"]) if case["rate_1"] else None) else "rates-equal-or-zero")
        out.nontrivial = bool(case["rate_1"] or case["rate_2"]) and 1 < max(wants.values())
        return
    if mode in ("pilot", "prefix"):
        cfg, x, alpha = case["cfg"], case["x"], case["alpha"]
        N = cfg["N"]
        out.cls(cfg["family"])
        pop = np.tile(np.array(x, dtype=float), math.ceil(N / len(x)))[:N]
        try:
            hist = np.asarray(nonneg.make_test(cfg).test(pop)[1], dtype=float)
        except Exception as e:  # noqa
            out.lib_exception("test", e)
            return
        k = first_crossing(hist, alpha, N)
        crossed = bool(np.any(hist <= alpha))
        if mode == "pilot":
            try:
                tobj = nonneg.make_test(cfg)
                if len(x) % 2 == 0:  # the object has been used for another estimate (other pilot, other limit) before
                    tobj.sample_size(x=np.array(list(reversed(x)) + [x[0]], dtype=float)[: N - 1], alpha=min(0.5, alpha * 2))
                    out.cls("after-an-earlier-estimate")
                got = tobj.sample_size(x=np.array(x, dtype=float), alpha=alpha)
            except Exception as e:  # noqa
                out.lib_exception("sample_size", e)
                return
            out.expect(got == k, "estimate!=first-crossing-on-tiled-pilot", lambda: {"got": got, "want": k, "N": N, "len(x)": len(x)})
            # the assertion-level entry point with pilot data
            try:
                from shangrla.core.Audit import Assertion, Contest

                con = Contest.from_dict({"id": "C", "name": "C", "risk_limit": alpha, "cards": N, "choice_function": "PLURALITY", "n_winners": 1,
                                         "candidates": ["A", "B"], "winner": ["A"], "audit_type": "POLLING", "use_style": True})
                asn = Assertion(contest=con, winner="A", loser="B", margin=0.1, test=nonneg.make_test(cfg))
                got2 = asn.find_sample_size(data=np.array(x, dtype=float), reps=None)
            except Exception as e:  # noqa
                out.lib_exception("Assertion.find_sample_size(data)", e)
                return
            out.expect(got2 == k and asn.sample_size == k, "assertion-level-estimate-from-pilot!=first-crossing", lambda: {"got": got2, "want": k})
            out.nontrivial = (1 < k < N) or not crossed
            out.cls("never-crosses" if not crossed else "crosses")
            if crossed and 1024 < k < N:
                out.cls("first-crossing-after-1024-draws")
            return
        if not crossed or k >= N:
            out.skip("prefix:pilot-never-crosses")
            return
        pref = pop[: min(N - 1, k + case["extra"])]
        if len(pref) < k:
            out.skip("prefix:crossing-at-N")
            return
        try:
            got = nonneg.make_test(cfg).sample_size(x=pref, alpha=alpha, reps=case["reps"], prefix=True, quantile=case["quantile"], seed=case["seed"])
        except Exception as e:  # noqa
            out.lib_exception("sample_size(prefix)", e)
            return
        out.expect(got == k, "simulated-estimate!=crossing-of-prefix", lambda: {"got": got, "want": k, "reps": case["reps"], "quantile": case["quantile"]})
        # the assertion-level entry point with the same prefix (the observations made so far)
        try:
            from shangrla.core.Audit import Assertion, Contest

            con = Contest.from_dict({"id": "C", "name": "C", "risk_limit": alpha, "cards": N, "choice_function": "PLURALITY", "n_winners": 1,
                                     "candidates": ["A", "B"], "winner": ["A"], "audit_type": "POLLING", "use_style": True})
            asn = Assertion(contest=con, winner="A", loser="B", margin=0.1, test=nonneg.make_test(cfg))
            got2 = asn.find_sample_size(data=pref, prefix=True, reps=case["reps"], quantile=case["quantile"], seed=case["seed"])
        except Exception as e:  # noqa
            out.lib_exception("Assertion.find_sample_size(prefix)", e)
            return
        out.expect(got2 == k and asn.sample_size == k, "assertion-level-simulated-estimate!=crossing-of-prefix",
                   lambda: {"got": got2, "want": k, "reps": case["reps"], "quantile": case["quantile"], "len(prefix)": len(pref)})
        out.nontrivial = k > 1
        return
    if mode == "raire-estimator":
        import types

        from shangrla.core.Audit import Assertion
        from shangrla.core.NonnegMean import NonnegMean
        from shangrla.raire import sample_estimator

        N, tw, tl = case["N"], case["tw"], case["tl"]
        to = N - tw - tl
        mean = (tw + 0.5 * to) / N  # assorter mean of the winner-vs-loser assorter
        margin = 2 * mean - 1
        args = types.SimpleNamespace(erate1=case["erate1"], erate2=case["erate2"], rlimit=case["rlimit"], reps=None, seed=1)
        out.cls("polling" if case["polling"] else "comparison")
        try:
            got = sample_estimator.sample_size(mean, tw, tl, to, args, N, upper_bound=1, polling=case["polling"])
        except Exception as e:  # noqa
            out.lib_exception("sample_estimator.sample_size", e)
            return
        u = 2 / (2 - margin)
        if case["polling"]:
            x = Assertion.interleave_values(tl, to, tw, big=1)
            t = NonnegMean(test=NonnegMean.alpha_mart, estim=NonnegMean.shrink_trunc, N=N, u=u, eta=mean)
        else:
            x = np.full(N, 1 / (2 - margin))
            if case["erate1"]:
                x[np.arange(0, N, int(1 / case["erate1"]))] = 0.5 / (2 - margin)
            if case["erate2"]:
                x[np.arange(0, N, int(1 / case["erate2"]))] = 0.0
            t = NonnegMean(test=NonnegMean.alpha_mart, estim=NonnegMean.optimal_comparison, N=N, u=u, eta=mean)
        want = first_crossing(np.asarray(t.test(np.asarray(x, dtype=float))[1], dtype=float), case["rlimit"], N)
        out.expect(got == want, "raire-estimator!=first-crossing-on-assumed-data", lambda: {"got": got, "want": want, "N": N, "margin": margin})
        out.nontrivial = 1 < want
        return
    # ---- contest-level constructions
    try:
        audit, con = _contest(case)
    except Exception as e:  # noqa
        out.lib_exception("setup", e)
        return
    out.cls(case["audit_type"], case["test"])
    wants = {}
    for key, a in con.assertions.items():
        x, counts = _population(case, a)
        t = copy.deepcopy(a.test)
        # the bound this assertion's test is to be told (C06): its own, whatever other assertions of the contest have
        t.u = a.assorter.upper_bound if case["audit_type"] == "POLLING" else 2 / (2 - a.margin / a.assorter.upper_bound)
        if x is None:
            # polling: the population is the interleaving of the reported tallies; its composition is fixed by the
            # statement, its order by interleave_values (checked separately): take the order from there
            from shangrla.core.Audit import Assertion

            x = Assertion.interleave_values(counts[0.0], counts[0.5], counts[1.0], big=a.assorter.upper_bound)
            got_counts = {v: int(np.sum(np.asarray(x) == v)) for v in counts}
            if not out.expect(got_counts == counts, "polling-population-counts", lambda: (got_counts, counts)):
                return
        try:
            hist = np.asarray(t.test(np.array(x, dtype=float))[1], dtype=float)
            if counts is not None and isinstance(x, np.ndarray) and x.flags.writeable:
                x.sort()   # (the interleaved array was ours; the library builds its own when it estimates)
        except Exception as e:  # noqa
            out.lib_exception("test", e)
            return
        wants[key] = first_crossing(hist, case["risk_limit"], case["N"])
    try:
        if mode == "audit":
            # audit-level estimate without style information: every contest gets the largest estimate among its (unproved) assertions
            audit.strata["s"].use_style = False
            keys = list(con.assertions)
            proved = keys[0] if (len(keys) > 1 and case["N"] % 2 == 0) else None
            if proved:
                con.assertions[proved].proved = True
            group = {"C": con}
            if case["N"] % 3 == 0:
                # a second contest that an earlier call estimated (under more pessimistic assumed error rates) and that has been
                # confirmed since: nothing of it is left to estimate, and the audit's figure is that of the open contest
                import copy as _copy

                _, done = _contest(case)
                group = {"D": done, "C": con} if case["N"] % 2 else {"C": con, "D": done}
                pess = _copy.copy(audit)
                if case["audit_type"] != "POLLING":
                    pess.error_rate_1, pess.error_rate_2 = 0.2, 0.1
                pess.find_sample_size(group)
                for a in done.assertions.values():
                    a.proved = True
                out.cls("with-a-contest-confirmed-since-an-earlier-estimate")
            total = audit.find_sample_size(group)
            want = max(v for k, v in wants.items() if k != proved)
            out.expect(con.sample_size == want and total == want, "audit-estimate!=max-over-unproved-assertions", lambda: (con.sample_size, total, wants, proved))
            if "D" in group:
                out.expect(group["D"].sample_size == 0, "confirmed-contest-keeps-an-earlier-estimate", lambda: group["D"].sample_size)
            out.nontrivial = len(set(wants.values())) > 1
        elif mode == "contest":
            if case["N"] % 2 == 0 and case["audit_type"] != "POLLING":
                # an earlier, more pessimistic estimate on the same Contest object (higher assumed error rates)
                import copy as _copy

                pess = _copy.copy(audit)
                pess.error_rate_1, pess.error_rate_2 = 0.2, 0.1
                con.find_sample_size(pess)
                out.cls("after-an-earlier-estimate")
            got = con.find_sample_size(audit)
            out.expect(got == max(wants.values()) and con.sample_size == got, "contest-estimate!=max-over-assertions", lambda: (got, wants))
            out.nontrivial = len(set(wants.values())) > 1
        else:
            for key, a in con.assertions.items():
                if case["N"] % 3 == 1:
                    # an earlier estimate on the same assertion with the same assumed rates, made when the margin (comparison)
                    # or the reported tally (polling) was still another: the estimate is for the values now in force
                    keep_m, keep_u, keep_t = a.margin, a.test.u, con.tally
                    try:
                        if case["audit_type"] == "POLLING" and con.tally:
                            con.tally = dict(con.tally)
                            con.tally[a.loser] = 0
                        else:
                            a.margin = keep_m / 2
                        a.find_sample_size(rate_1=case["rate_1"], rate_2=case["rate_2"])
                    except Exception:  # noqa  (nothing is claimed about the provisional values)
                        pass
                    a.margin, a.test.u, con.tally = keep_m, keep_u, keep_t
                    out.cls("after-an-earlier-estimate-under-another-margin-or-tally")
                got = a.find_sample_size(rate_1=case["rate_1"], rate_2=case["rate_2"])
                out.expect(got == wants[key] and a.sample_size == got, f"{mode}-estimate!=first-crossing-on-assumed-data",
                           lambda: {"assertion": key, "got": got, "want": wants[key], "margin": a.margin})
            k = max(wants.values())
            out.nontrivial = 1 < k
            out.cls("never-crosses" if k == case["N"] else "crosses")
    except AssertionError as e:
        if "nonpositive" in str(e):
            out.skip("nonpositive-margin")
        else:
            raise
    except Exception as e:  # noqa
        out.lib_exception("find_sample_size", e)
