"""C04  RAIRE assertions, if any, are true of the CVRs and exclude every other winner; empty iff impossible."""
from oracles import irv_ref as ir
from strategies import irv as si

ID = "C04"
TECHNIQUE = "Hypothesis-generated IRV profiles; brute force over all elimination orders and all true NEB/NEN assertions as reference model"
RULE = (
    "case = ballot profile over 2..5 (thorough 6) candidates: partial rankings, blank ballots, records lacking the contest, "
    "signature multiplicities producing clear winners, ties at any round, tiny profiles; any reported winner (usually a "
    "possible IRV winner, sometimes wrong); both difficulty functions; optional elimination-order hint. Oracle: independent "
    "NEB/NEN tallies on plain preference lists; every complete order ending in another candidate must be contradicted by a "
    "returned assertion; result empty <=> some alternative order is contradicted by no true assertion at all. "
    "Non-trivial = (>=3 candidates and >=2 returned assertions) or an impossibility caused by a tie / wrong winner. "
    "distinct = canonical JSON."
)
ASSUMPTIONS = [
    "rankings are duplicate-free lists over the declared candidates; tot_ballots = number of CVR records supplied",
    "the universe of assertions is NEB(w,l) and NEN(w,l,E) for every eliminated set E not containing w,l (the RAIRE paper's families)",
    "bounded: at most 6 candidates (720 orders), at most 63 ballots",
]


def shards(tier):
    q = tier == "quick"
    out = [{"name": f"n{n}-{i}", "n": n, "examples": (1500 if n <= 4 else 400) if q else (15000 if n <= 4 else 5000)}
           for n in (2, 3, 4, 5) for i in (1, 2)]
    if q:
        # the search only becomes interesting from 4 candidates on: use the remaining cores there
        out += [{"name": f"n4-{i}", "n": 4, "examples": 2500} for i in (3, 4, 5, 6)]
        out += [{"name": f"n5-{i}", "n": 5, "examples": 800} for i in (3, 4, 5, 6)]
        out += [{"name": f"n6-{i}", "n": 6, "examples": 150, "budget_s": 60} for i in (1, 2)]
    else:
        out += [{"name": f"n6-{i}", "n": 6, "examples": 400, "budget_s": 2400} for i in (1, 2, 3, 4)]
    return out


def strategy(shard):
    return si.profile(n_min=shard["n"], n_max=shard["n"])


def run_raire(case, earlier_search=False, agap=0):
    from shangrla.raire import sample_estimator
    from shangrla.raire.raire import compute_raire_assertions
    from shangrla.raire.raire_utils import Contest as RContest

    cvrs = si.raire_cvrs(case)
    # the reported winner is the function's `winner` argument; the Contest object may carry another (e.g. stale) value
    attr_winner = case["winner"] if len(case["ballots"]) % 3 else case["cands"][0]
    # names read from a file or a log are equal to the candidates' names without being the same objects
    fresh = lambda v: v.encode().decode() if isinstance(v, str) else v
    winner_arg = fresh(case["winner"])
    contest = RContest(case.get("contest_name", "c"), list(case["cands"]), fresh(attr_winner), total_ballots(case),
                       order=[fresh(c) for c in (case["order_hint"] or [])])
    f = si.difficulty(case["asn"])
    if earlier_search:
        # the same Contest object and CVR mapping were searched before with the other difficulty function
        other = sample_estimator.cp_estimate if case["asn"] == "bp_estimate" else sample_estimator.bp_estimate
        compute_raire_assertions(contest, cvrs, winner_arg, other, False)
    if agap:
        return compute_raire_assertions(contest, cvrs, winner_arg, f, False, agap=agap), f
    return compute_raire_assertions(contest, cvrs, winner_arg, f, False), f


def total_ballots(case):
    return len(case["ballots"]) + case.get("tot_extra", 0)


def as_tuple(a):
    from shangrla.raire.raire_utils import NEBAssertion, NENAssertion

    if isinstance(a, NEBAssertion):
        return ("NEB", a.winner, a.loser, frozenset(), a.votes_for_winner, a.votes_for_loser, a.difficulty)
    if isinstance(a, NENAssertion):
        return ("NEN", a.winner, a.loser, frozenset(a.eliminated), a.votes_for_winner, a.votes_for_loser, a.difficulty)
    return None


def evaluate(case, out):
    cands, winner = case["cands"], case["winner"]
    real = [b for b in case["ballots"] if b is not None]
    out.cls(f"n={len(cands)}", case["asn"], ("hint" if case["order_hint"][-1] == case["winner"] else "hint-ends-elsewhere") if case["order_hint"] else "no-hint")
    try:
        res, f = run_raire(case, earlier_search=(len(case["ballots"]) % 2 == 0), agap=case.get("agap", 0))
        if case.get("agap"):
            out.cls("agap>0")
    except Exception as e:  # noqa
        out.lib_exception("compute_raire_assertions", e)
        return
    true = ir.all_true_assertions(cands, real, difficulty=None, total=total_ballots(case))
    orders = ir.alternative_orders(cands, winner)
    out.enumerated = len(orders)
    possible = all(any(ir.contradicts(a, o) for a in true) for o in orders)
    possible_winners = ir.irv_winners(cands, real) if real else set(cands)
    unique = possible_winners == {winner}
    if not unique:
        out.cls("winner-not-unique-possible-winner")
        # a consequence the statement spells out: then no sufficient set of true assertions exists
        if possible:
            raise AssertionError("reference model inconsistent: non-unique winner but a sufficient true set exists")
    if not out.expect(isinstance(res, list), "result-not-a-list", lambda: type(res)):
        return
    if not possible:
        out.cls("audit-impossible")
        out.expect(res == [], "non-empty-result-although-no-sufficient-true-set-exists",
                   lambda: {"result": [getattr(a, "to_str", lambda: repr(a))() for a in res], "winner": winner,
                            "possible_winners": sorted(possible_winners)})
        out.nontrivial = len(cands) >= 2 and bool(real)
        return
    out.cls("audit-possible")
    if not out.expect(len(res) > 0, "empty-result-although-a-sufficient-true-set-exists", lambda: {"winner": winner}):
        return
    mine = []
    for a in res:
        t = as_tuple(a)
        if not out.expect(t is not None, "element-is-not-an-assertion", lambda: repr(a)):
            return
        mine.append(t)
    key = {(t[0], t[1], t[2], t[3]): t for t in true}
    for m in mine:
        ref = key.get((m[0], m[1], m[2], m[3]))
        if not out.expect(ref is not None, "returned-assertion-is-false-on-the-cvrs", lambda: m[:6]):
            return
        out.expect((m[4], m[5]) == (ref[4], ref[5]) and m[4] > m[5], "reported-tallies!=reference", lambda: (m[:6], ref[:6]))
    for o in orders:
        if not out.expect(any(ir.contradicts(m, o) for m in mine), "alternative-order-not-excluded",
                          lambda: {"order": list(o), "assertions": [m[:4] for m in mine]}):
            return
    out.nontrivial = len(cands) >= 3 and len(mine) >= 2
    if any(m[0] == "NEN" for m in mine):
        out.cls("uses-NEN")
    if any(m[0] == "NEB" for m in mine):
        out.cls("uses-NEB")
