"""C13  Shipped estimators and bets keep every martingale factor non-negative."""
import math

from hypothesis import strategies as st

from oracles.nonneg_ref import as_list, mu_seq
from strategies import nonneg

ID = "C13"
TECHNIQUE = "Hypothesis-generated (configuration, sample) pairs; range predicate on estim()/bet() and sign of the affine factor at x in {0,u}"
RULE = (
    "case = (ALPHA or betting configuration, sample in [0,u]^n); estimator/bet sequences are requested from the library "
    "and checked where the reference null conditional mean mu_j lies in (0,u]. Non-trivial = the sequence is not constant, "
    "or a truncation is active (eta_j within 1e-9 of mu_j+e_j or of u; lambda_j at its cap), or the fixed alternative "
    "becomes impossible ((N eta - S_j)/(N-j+1) outside [0,u]), or mu_j leaves (0,u) somewhere. distinct = canonical JSON."
)
ASSUMPTIONS = [
    "0 < t < u; eta in (t,u); c,d,minsd > 0; f >= 0; c_grapa_0 <= c_grapa_max < 1; fixed bet lam in [0,1/u]; rate_error_2 in [0,0.3]",
    "ranges are judged with relative tolerance 1e-12; strictness of shrink_trunc above mu_j is required only where mu_j <= u(1-1e-9)",
    "bets, factor signs and strictness above mu_j are judged where mu_j lies in (0,u] (the statement restricts them to that); an estimator's values are required to lie in [0,u] at every position",
]
FAMS = ["alpha-fixed", "alpha-shrink", "alpha-optcomp", "bet-fixed", "bet-agrapa",
        "alpha-fixed-inf", "alpha-shrink-inf", "bet-fixed-inf", "bet-agrapa-inf", "alpha-optcomp-inf"]


def shards(tier):
    n = 1500 if tier == "quick" else 30000
    sh = [{"name": f, "family": f, "examples": n} for f in FAMS]
    # small populations / long zero runs: where a fixed alternative becomes impossible
    sh += [{"name": f + "-smallN", "family": f, "max_N": 8, "examples": n} for f in FAMS[:5]]
    sh += [{"name": "sprt-fin-smallN", "family": "sprt-fin", "max_N": 8, "examples": n}]
    # the estimators / bets as an audit uses them: on each assertion's own test object, under that assertion's own bound
    sh += [{"name": "in-an-audit", "mode": "audit", "examples": n // 8}]
    return sh


def strategy(shard):
    if shard.get("mode") == "audit":
        from strategies import audit as sa

        return sa.scenario(n_contests=(1, 2), kinds=["plurality"], audit_types=("CARD_COMPARISON",), use_style=False, n_cards=(6, 40),
                           favour_winner=True, with_phantoms=False, with_pools=False, p_missing=0.0).map(lambda s: {"mode": "audit", "scn": s})

    @st.composite
    def case(draw):
        cfg = draw(nonneg.config(shard["family"], max_N=shard.get("max_N", 60)))
        x = draw(nonneg.sample(cfg))
        if cfg["family"] in ("alpha-fixed", "sprt-fin") and cfg["N"] and cfg["N"] >= 4 and draw(st.integers(0, 3)) == 0:
            # a fixed alternative that the draws make impossible by a hair: after k zeros the implied alternative
            # (N eta)/(N-k) is u(1+delta) for a tiny delta (tolerance-sized overshoots must be truncated too)
            N, u, t = cfg["N"], cfg["u"], cfg["t"]
            k = draw(st.integers(1, N - 2))
            delta = draw(st.sampled_from([1e-6, 5e-7, 1e-7, 1e-8, 1e-10, -1e-9]))
            eta = u * (1 + delta) * (N - k) / N
            if t < eta < u:
                cfg["kw"]["eta"] = eta
                x = ([0.0] * k + [draw(nonneg._value(u, t)) for _ in range(draw(st.integers(1, 3)))])[: N]
        return {"cfg": cfg, "x": x}

    return case()


def _audit_case(case, out):
    import numpy as np
    from shangrla.core.Audit import Assertion
    from strategies import audit as sa

    out.cls("in-an-audit")
    try:
        audit, contests, cvrs, mvrs = sa.build(case["scn"])
        Assertion.set_all_margins_from_cvrs(audit, contests, cvrs)
    except Exception as e:  # noqa
        out.lib_exception("setup", e)
        return
    tol = 1e-12
    for cid, con in contests.items():
        margins = [a.margin for a in con.assertions.values()]
        if not all(v > 0 for v in margins):
            out.skip("nonpositive-margin")
            continue
        if len(set(margins)) >= 2:
            out.cls("assertions-with-different-bounds")
            out.nontrivial = True
        for key, a in con.assertions.items():
            u_a = 2 / (2 - a.margin / a.assorter.upper_bound)      # the bound of THIS assertion's data (C06)
            try:
                x = np.array(a.mvrs_to_data(mvrs, cvrs, use_all=True)[0], dtype=float)
                if len(x) == 0:
                    continue
                t = a.test
                N, tt = (None if not np.isfinite(t.N) else int(t.N)), t.t
                mu = mu_seq(N, tt, list(x))
                if t.test.__func__.__name__ == "alpha_mart":
                    seq, kind = as_list(t.estim(x), len(x)), "eta"
                elif t.test.__func__.__name__ == "betting_mart":
                    seq, kind = as_list(t.bet(x), len(x)), "lambda"
                else:
                    continue
            except Exception as e:  # noqa
                out.lib_exception("estimator-in-audit", e)
                return
            for j, (e, m) in enumerate(zip(seq, mu)):
                if not (0 < m <= u_a) or math.isnan(e):
                    continue
                if kind == "eta":
                    ok = -tol * u_a <= e <= u_a * (1 + tol)
                else:
                    ok = -tol <= e <= (1 / m) * (1 + tol)
                if not out.expect(ok, f"{kind}-outside-its-range-under-the-assertion's-own-bound", lambda: (cid, key, j, e, u_a, m)):
                    return


def evaluate(case, out):
    import numpy as np

    if case.get("mode") == "audit":
        return _audit_case(case, out)

    cfg, x = case["cfg"], case["x"]
    u, t, N = cfg["u"], cfg["t"], cfg["N"]
    n = len(x)
    out.cls(cfg["family"])
    test = nonneg.make_test(cfg)
    # the sample as the caller holds it: floats, or (every other case) whole numbers as integers
    xa = nonneg.natural(x) if len(x) % 2 == 1 else np.array(x, dtype=float)
    if xa.dtype.kind in "iu":
        out.cls("integer-typed-sample")
    if len(x) % 2 == 0:
        # the upper bound of a test object is re-assigned when margins become known (Assertion.set_margin_from_cvrs):
        # estimators / bets asked before that, under a larger bound, must not influence the values under the final one
        try:
            test.u = u * 1.25
            with np.errstate(all="ignore"):
                (test.estim if cfg["test"] == "alpha_mart" else test.bet)(xa)
        except Exception:  # noqa
            pass
        test.u = u
        out.cls("bound-lowered-after-an-earlier-request")
    mu = mu_seq(N, t, x)
    judged = [0 < m <= u for m in mu]
    if not all(judged):
        out.cls("mu-leaves-(0,u]")
        out.nontrivial = True
    tol = 1e-12
    if cfg["test"] == "alpha_mart" or cfg["test"] == "wald_sprt":
        if cfg["test"] == "wald_sprt":
            eta = None
        else:
            try:
                eta = as_list(test.estim(xa), n)
            except Exception as e:  # noqa
                out.lib_exception("estim", e)
                return
            out.expect(len(eta) == n, "estim-length", lambda: (len(eta), n))
        if eta is not None and len(eta) == n:
            if len(set(eta)) > 1:
                out.nontrivial = True
                out.cls("eta-varies")
            for j in range(n):
                if not judged[j]:
                    # "every estimator yields values in [0,u]" is not conditional on the null mean: where the null has already
                    # become impossible or certain the alternative still has to be a possible mean
                    e = eta[j]
                    if not math.isnan(e):
                        if not out.expect(-tol * u <= e <= u * (1 + tol), "eta-outside-[0,u]-where-the-null-mean-left-(0,u]", lambda: (j, e, u, mu[j])):
                            break
                    continue
                e, m = eta[j], mu[j]
                if not out.expect(not math.isnan(e), "eta-nan", lambda: (j, eta[:10])):
                    break
                if not out.expect(0 <= e <= u, "eta-outside-[0,u]", lambda: (j, e, u, m, e - u)):
                    break
                # the ALPHA factor is affine in x: its minimum over [0,u] is at an endpoint
                if m < u:
                    f0 = (u - e) / (u - m)
                    fu = e / m
                    if not out.expect(f0 >= -tol and fu >= -tol, "negative-factor", lambda: (j, e, m, f0, fu)):
                        break
                if cfg["estim"] == "shrink_trunc" and m <= u * (1 - 1e-9):
                    if not out.expect(e > m, "shrink_trunc-not-above-null-mean", lambda: (j, e, m)):
                        break
                    kw = cfg["kw"]
                    if abs(e - (m + kw["c"] / math.sqrt(kw["d"] + j))) < 1e-9 or e >= u * (1 - 1e-9):
                        out.cls("truncation-active")
                        out.nontrivial = True
            if cfg["estim"] == "fixed_alternative_mean" and N is not None:
                S = 0.0
                for j, v in enumerate(x):
                    raw = (N * cfg["kw"]["eta"] - S) / (N - j)
                    if raw < 0 or raw > u:
                        out.cls("fixed-alternative-impossible")
                        out.nontrivial = True
                        break
                    S += v
            if cfg["estim"] == "optimal_comparison":
                if eta and (eta[0] <= t * (1 + 1e-12) or eta[0] >= u * (1 - 1e-12)):
                    out.cls("optcomp-truncated")
                    out.nontrivial = True
    else:
        try:
            lam = as_list(test.bet(xa), n)
        except Exception as e:  # noqa
            out.lib_exception("bet", e)
            return
        if out.expect(len(lam) == n, "bet-length", lambda: (len(lam), n)):
            if len(set(lam)) > 1:
                out.nontrivial = True
                out.cls("lambda-varies")
            for j in range(n):
                if not judged[j]:
                    continue
                l, m = lam[j], mu[j]
                if not out.expect(not math.isnan(l), "lambda-nan", lambda: (j, lam[:10])):
                    break
                if not out.expect(-tol <= l <= (1 / m) * (1 + tol), "lambda-outside-[0,1/mu]", lambda: (j, l, m, 1 / m)):
                    break
                if not out.expect(1 + l * (0 - m) >= -tol, "negative-factor", lambda: (j, l, m)):
                    break
                if cfg["bet"] == "agrapa" and l > 0 and abs(l * m - _c(cfg, j)) < 1e-9:
                    out.cls("agrapa-clip-active")
                    out.nontrivial = True
    # sign of every entry of the p-value history
    try:
        p, hist = test.test(xa)
    except Exception as e:  # noqa
        out.lib_exception("test", e)
        return
    hist = np.asarray(hist, dtype=float)
    neg = [(j, float(h)) for j, h in enumerate(hist) if h < 0]
    out.expect(not neg, "negative-p-history-entry", lambda: neg[:5])
    out.expect(not (float(p) < 0), "negative-p", float(p))


def _c(cfg, j):
    kw = cfg["kw"]
    return kw["c_grapa_0"] + (kw["c_grapa_max"] - kw["c_grapa_0"]) * (1 - 1 / (1 + kw["c_grapa_grow"] * math.sqrt(j)))
