"""C01  Risk limit: p-values are sequentially valid under every null population.
Oracle: exact rejection probability by complete enumeration of orderings / IID paths."""
import math
from fractions import Fraction

from hypothesis import strategies as st

from oracles import exact_risk as er
from strategies import nonneg

ID = "C01"
TECHNIQUE = "Hypothesis-generated null populations; exact rejection probability by enumerating every ordering / IID path, compared with alpha for every attained alpha"
RULE = (
    "case = (configuration, null population): finite N = a multiset of N values in [0,u] with exact mean <= t (dyadic grid, "
    "half of them with mean == t exactly; or arbitrary floats with mean <= t(1-1e-6)); IID = a law with <=3 atoms and rational "
    "probabilities, mean <= t, horizon L. The real test is run on EVERY distinct arrangement (all L-paths); M = min(overall p, "
    "min history); the check requires P(M<=v) <= v(1+1e-9) for every attained v<1. Non-trivial = population not constant, "
    "some arrangement reaches p<1, and >= 24 arrangements/paths. A third of the cases hand the draws over as the caller would hold "
    "them (whole numbers as an integer-typed array). distinct = canonical JSON of (configuration, population)."
)
ASSUMPTIONS = [
    "parameter domains as for C11; eta in (t,u); populations are exactly null (premise verified with Fractions on the floats' exact values)",
    "P(M<=alpha) is exact per population; tolerance 1e-9 relative only absorbs rounding of the p-values themselves",
    "NaN p-values are C11's business and are ignored here; a negative entry counts as <= every alpha",
    "bounded: N <= 7 (arbitrary values), N <= 12 with <=3 distinct values, binary populations to N = 16; IID horizon <= 9",
]
FIN = ["alpha-fixed", "alpha-shrink", "alpha-optcomp", "bet-fixed", "bet-agrapa", "kk", "sprt-fin"]
IID = ["alpha-fixed-inf", "alpha-shrink-inf", "bet-fixed-inf", "bet-agrapa-inf", "km", "kw", "sprt-inf", "alpha-optcomp-inf"]
DY_U = {"alpha-optcomp": [1.0625, 1.125, 1.25, 1.5, 2.0]}


def shards(tier):
    q = tier == "quick"
    sh = []
    for f in FIN:
        sh.append({"name": f + "-small", "family": f, "mode": "finite", "minN": 4, "maxN": 7, "examples": 250 if q else 2500, "budget_s": 100 if q else 2400})
        sh.append({"name": f + "-fewvalues", "family": f, "mode": "finite-few", "minN": 6, "maxN": 10 if q else 12, "examples": 80 if q else 800, "budget_s": 100 if q else 2400})
    # larger populations that are still cheap to enumerate: one dominant value plus 1..3 other cards
    for f in FIN:
        sh.append({"name": f + "-skewed", "family": f, "mode": "skewed", "minN": 8, "maxN": 24 if q else 40, "examples": 220 if q else 1500,
                   "budget_s": 100 if q else 2400})
    # the adaptive estimator / bet are where predictability can be lost: twice the search there
    for f in ("alpha-shrink", "bet-agrapa"):
        sh.append({"name": f + "-skewed-2", "family": f, "mode": "skewed", "minN": 8, "maxN": 24 if q else 40, "examples": 220 if q else 1500,
                   "budget_s": 100 if q else 2400, "adaptive": True})
    for f in IID:
        sh.append({"name": f, "family": f, "mode": "iid", "maxL": 8 if q else 9, "examples": 200 if q else 2000, "budget_s": 100 if q else 2400})
    return sh


@st.composite
def _ut(draw, family):
    if family.startswith("alpha-optcomp"):
        return draw(st.sampled_from(DY_U["alpha-optcomp"])), 0.5
    u = draw(st.sampled_from([1.0, 1.0, 1.0, 2.0, 1.5, 1.25, 0.75]))
    ts = [k / 8 for k in range(1, 16) if k / 8 < u]
    return u, draw(st.sampled_from([0.5, 0.5, 0.5] + ts))


@st.composite
def _null_pop(draw, u, t, N, few):
    """multiset of N grid values with exact mean <= t; about half exactly at the boundary."""
    step = u / 8 if (u * 8) == int(u * 8) or True else u / 8
    grid = [k * (1 / 8) for k in range(0, int(u * 8) + 1)]
    if few:
        k = draw(st.integers(2, 3))
        vals = draw(st.lists(st.sampled_from(grid + [0.0, u]), min_size=k, max_size=k, unique=True))
        pop = [draw(st.sampled_from(vals)) for _ in range(N)]
    else:
        pop = [draw(st.sampled_from(grid + [0.0, 0.0, u, u])) for _ in range(N)]
    budget = Fraction(t) * N
    pop = sorted(pop)
    # lower the largest values until the population is null
    guard = 0
    while sum(Fraction(v) for v in pop) > budget and guard < 1000:
        guard += 1
        i = max(range(N), key=lambda i: pop[i])
        if few:
            lower = [v for v in set(pop) | {0.0} if v < pop[i]]
            pop[i] = max(lower) if lower else 0.0
        else:
            pop[i] = max(0.0, pop[i] - 1 / 8)
    if draw(st.integers(0, 3)) > 0 and not few:
        # push towards the boundary mean == t
        for _ in range(8 * N):
            room = budget - sum(Fraction(v) for v in pop)
            if room < Fraction(1, 8):
                break
            cand = [i for i in range(N) if pop[i] + 1 / 8 <= u]
            if not cand:
                break
            i = draw(st.sampled_from(cand))
            pop[i] += 1 / 8
    return pop


def strategy(shard):
    fam = shard["family"]

    @st.composite
    def finite(draw):
        u, t = draw(_ut(fam))
        few = shard["mode"] == "finite-few"
        N = draw(st.integers(shard["minN"], shard["maxN"]))
        regime = draw(st.sampled_from(["dyadic", "dyadic", "dyadic", "slack"])) if not few else "dyadic"
        if regime == "dyadic":
            pop = draw(_null_pop(u, t, N, few))
        else:
            raw = draw(st.lists(st.floats(0.0, u), min_size=N, max_size=N))
            s = math.fsum(raw)
            lim = N * t * (1 - 1e-6)
            pop = [v * (lim / s) * 0.999999 for v in raw] if s > lim else raw
        # padding g on the same dyadic grid as the data when the population may sit exactly on the boundary
        # (otherwise t+g and x+g round differently and the float premise is no longer null; DESIGN 2.6 / 9)
        cfg = draw(nonneg.config(fam, ut=(u, t), min_N=N, max_N=N, dyadic_g=(regime == "dyadic")))
        cfg["N"] = N
        # an audit evaluates the same test object after every round: optionally look after k draws first
        rounds = draw(st.sampled_from([None, None, [draw(st.integers(1, N - 1))]]))
        return {"cfg": cfg, "pop": [float(v) for v in pop], "regime": regime, "rounds": rounds,
                "rep": draw(st.sampled_from(["float", "float", "natural"]))}

    @st.composite
    def iid(draw):
        # how the caller holds the draws: a float array, or whole numbers as integers (0/1/2 assorter values are
        # naturally an integer-typed array); whole-number laws are then generated on purpose
        rep = draw(st.sampled_from(["float", "float", "natural"]))
        if rep == "natural" and not fam.startswith("alpha-optcomp"):
            u = draw(st.sampled_from([1.0, 2.0, 2.0, 3.0]))
            ts = [j / 8 for j in range(1, 24) if j / 8 < u]
            t = draw(st.sampled_from([0.5] + ts))
        else:
            u, t = draw(_ut(fam))
        cfg = draw(nonneg.config(fam, ut=(u, t), dyadic_g=True))
        k = draw(st.integers(2, 3))
        grid = [j / 8 for j in range(0, int(u * 8) + 1)]
        if rep == "natural":
            whole = [float(j) for j in range(0, int(u) + 1)]
            k = min(k, len(whole))
            atoms = draw(st.lists(st.sampled_from(whole), min_size=k, max_size=k, unique=True))
        else:
            atoms = draw(st.lists(st.sampled_from(grid + [0.0, u, t]), min_size=k, max_size=k, unique=True))
        den = draw(st.sampled_from([d for d in [2, 3, 4, 5, 8, 10] if d >= k]))
        cuts = sorted(draw(st.lists(st.integers(1, den - 1), min_size=k - 1, max_size=k - 1, unique=True)))
        parts = [b - a for a, b in zip([0] + cuts, cuts + [den])]
        probs = [Fraction(p, den) for p in parts]
        # make it null: move mass to the smallest atom until mean <= t
        atoms = sorted(atoms)
        guard = 0
        while sum(Fraction(a) * p for a, p in zip(atoms, probs)) > Fraction(t) and guard < 100:
            guard += 1
            j = max(i for i in range(k) if probs[i] > 0 and i > 0) if any(probs[i] > 0 for i in range(1, k)) else 0
            if j == 0:
                atoms = [0.0] + atoms[1:]
                break
            probs[j] -= Fraction(1, den)
            probs[0] += Fraction(1, den)
        keep = [(a, p) for a, p in zip(atoms, probs) if p > 0]
        L = draw(st.integers(4, shard["maxL"]))
        return {"cfg": cfg, "atoms": [float(a) for a, _ in keep], "probs": [f"{p.numerator}/{p.denominator}" for _, p in keep], "L": L, "rep": rep}

    @st.composite
    def skewed(draw):
        # N-k cards of one (usually high) value and k in {1,2,3} other cards; t just above the exact mean, so the
        # population is null with almost no slack; few distinct arrangements (<= C(N,3)*6) although N is large
        if fam == "alpha-optcomp":
            u, _ = draw(_ut(fam))
        else:
            u = draw(st.sampled_from([1.0, 1.0, 1.0, 2.0, 1.5]))
        N = draw(st.integers(shard["minN"], shard["maxN"]))
        k = draw(st.integers(1, 3))
        grid = [j / 8 for j in range(0, int(u * 8) + 1)]
        hi = draw(st.sampled_from([u, u, u, u * 0.75, u * 0.5]))
        lows = [draw(st.sampled_from([0.0, 0.0, 0.0] + grid)) for _ in range(k)]
        pop = [hi] * (N - k) + lows
        mean = sum(Fraction(v) for v in pop) / N
        if fam == "alpha-optcomp":
            t = 0.5
            if mean > Fraction(1, 2):   # make it null: lower the dominant value
                hi = draw(st.sampled_from([g for g in grid if g <= 0.5]))
                pop = [hi] * (N - k) + [min(v, 0.5) for v in lows]
        else:
            t = float(mean) * (1 + 2e-6) + 1e-9
            if not (0 < t < u * (1 - 1e-3)):
                t = u / 2
                pop = [min(v, t) for v in pop]
        cfg = draw(nonneg.config(fam, ut=(u, t), min_N=N, max_N=N, dyadic_g=True))
        cfg["N"] = N
        if shard.get("adaptive") and fam == "alpha-shrink":
            # the options that make the estimator look at the spread of the data (off by default)
            cfg["kw"]["f"] = draw(st.sampled_from([0.01, 0.1, 1.0, 3.0]))
            cfg["kw"]["d"] = draw(st.sampled_from([1, 10, 20, 100]))
        return {"cfg": cfg, "pop": [float(v) for v in pop], "regime": "skewed"}

    if shard["mode"] == "skewed":
        return skewed()
    return iid() if shard["mode"] == "iid" else finite()


def evaluate(case, out):
    import numpy as np

    cfg = case["cfg"]
    u, t = cfg["u"], cfg["t"]
    out.cls(cfg["family"])
    test = nonneg.make_test(cfg)
    ms = []
    if case.get("rep") == "natural":
        out.cls("whole-numbers-as-integers")
        arr_of = nonneg.natural
    else:
        arr_of = lambda a: np.array(a, dtype=float)  # noqa: E731
    if "pop" in case:
        pop = case["pop"]
        N = len(pop)
        assert cfg["N"] == N
        if not (all(0 <= v <= u for v in pop) and er.exact_mean_le(pop, t)):
            out.skip("premise-not-null")  # generator bug guard: never judge a non-null population
            return
        total = er.n_arrangements(pop)
        boundary = sum(Fraction(v) for v in pop) == Fraction(t) * N
        out.cls("mean==t" if boundary else "mean<t", case.get("regime", "dyadic"))
        w = Fraction(1, total)
        rounds = case.get("rounds") or []
        if rounds:
            out.cls("evaluated-in-rounds")
        for arr in er.multiset_permutations(pop):
            m = 1.0
            try:
                if rounds:
                    # one audit = one test object looked at after every round: each ordering is a separate audit
                    test = nonneg.make_test(cfg)
                # the audit's data array grows from round to round: each look is at the first k entries of the same array
                base = arr_of(arr) if rounds else None
                for k in list(rounds) + [N]:
                    p, h = test.test(base[:k] if base is not None else arr_of(arr[:k]))
                    h = np.asarray(h, dtype=float)
                    pm = float(p)
                    if h.size:
                        hm = np.nanmin(h) if not np.all(np.isnan(h)) else 1.0
                        pm = hm if (math.isnan(pm) or hm < pm) else pm
                    if not math.isnan(pm):
                        m = min(m, pm)
            except Exception as e:  # noqa
                out.lib_exception("test", e)
                return
            ms.append((float(m), w))
        out.enumerated = total
        n_paths = total
        constant = len(set(pop)) == 1
    else:
        atoms = case["atoms"]
        probs = [Fraction(s) for s in case["probs"]]
        L = case["L"]
        if not (abs(sum(probs) - 1) == 0 and er.exact_mean_le(atoms, t, probs) and all(0 <= a <= u for a in atoms)):
            out.skip("premise-not-null")
            return
        boundary = sum(Fraction(a) * p for a, p in zip(atoms, probs)) == Fraction(t)
        out.cls("mean==t" if boundary else "mean<t", "iid")
        import itertools

        k = len(atoms)
        for idx in itertools.product(range(k), repeat=L):
            x = arr_of([atoms[i] for i in idx])
            pr = Fraction(1)
            for i in idx:
                pr *= probs[i]
            try:
                p, h = test.test(x)
                if L % 2 == 0:
                    # the same data array looked at a second time (a re-run, a second assertion sharing the array):
                    # whatever either look reports may be acted upon
                    p_b, h_b = test.test(x)
            except Exception as e:  # noqa
                out.lib_exception("test", e)
                return
            h = np.asarray(h, dtype=float)
            m = float(p)
            hm = np.nanmin(h) if not np.all(np.isnan(h)) else 1.0
            m = hm if (math.isnan(m) or hm < m) else m
            if L % 2 == 0:
                h_b = np.asarray(h_b, dtype=float)
                for v in [float(p_b)] + ([float(np.nanmin(h_b))] if not np.all(np.isnan(h_b)) else []):
                    if not math.isnan(v) and v < m:
                        m = v
            ms.append((float(m), pr))
        out.enumerated = k ** L
        n_paths = k ** L
        constant = k == 1
    worst = er.worst_excess(ms)
    try:  # steer generation towards populations where the bound is tightest (search heuristic only)
        from hypothesis import target

        target(min(er.max_ratio(ms), 2.0), label="P(M<=v)/v")
    except Exception:  # noqa  (replay outside a Hypothesis test)
        pass
    reaches = any(m < 1 for m, _ in ms)
    out.nontrivial = (not constant) and reaches and n_paths >= 24
    if reaches:
        out.cls("some-ordering-rejects-at-some-alpha")
    out.expect(worst is None, "risk-exceeds-alpha", lambda: {"alpha": worst[0], "P(reject)": worst[1], "paths": n_paths})
