"""C03  Comparison audits test the right null hypothesis (overstatement reduction identity)."""
import copy

from hypothesis import strategies as st

from strategies import audit as sa

ID = "C03"
TECHNIQUE = "algebraic identity mean(B)-1/2 = (2 mean(A)-1)/(2(2u-v)) checked on Hypothesis-generated CVR/MVR populations"
RULE = (
    "case = audit scenario: 1-2 contests (plurality k-winner / super-majority / IRV with JSON assertions), 3..30 cards with "
    "styles, phantom CVRs inside and outside tally pools, pooled batches (pool_contests + add_pool_contests as the documented "
    "workflow), an MVR per card (copy / different votes / contest missing / unfindable), style on/off, CARD_COMPARISON or "
    "ONEAUDIT. For every assertion the identity is evaluated over all cards under audit with v, the pool means and every "
    "B_i taken from the library and A_i from the statement. Non-trivial = some MVR differs from its CVR and at least one of "
    "{phantom CVR, pooled card, MVR lacking the contest, unfindable card}. distinct = canonical JSON."
)
ASSUMPTIONS = [
    "per-ballot assorter values come from Assorter.assort (their semantics are C02's / C14's business)",
    "pooled CVRs go through CVR.pool_contests + CVR.add_pool_contests before margins and pool means are computed, as documented",
    "population under style-based sampling = cards whose CVR lists the contest; otherwise all cards",
    "identity judged at absolute tolerance 1e-9; populations with no card under audit or NaN pool means (pool without the contest) are skipped and counted",
]


def shards(tier):
    n = 250 if tier == "quick" else 6000
    out = []
    for at in ("CARD_COMPARISON", "ONEAUDIT"):
        for us in (True, False):
            for kinds in (["plurality"], ["super"], ["irv"]):
                out.append({"name": f"{at[:4]}-{'style' if us else 'nostyle'}-{kinds[0]}", "audit_type": at, "use_style": us,
                            "kinds": kinds, "examples": n})
    # thousands of cards (a generated scenario repeated up to 4097 .. 12345 cards): few cases, each costs about a second
    for at, us, kinds in (("CARD_COMPARISON", True, ["plurality"]), ("ONEAUDIT", False, ["super"]), ("CARD_COMPARISON", False, ["irv"])):
        out.append({"name": f"{at[:4]}-{'style' if us else 'nostyle'}-{kinds[0]}-big", "audit_type": at, "use_style": us,
                    "kinds": kinds, "examples": 4 if tier == "quick" else 60, "big": True})
    return out


def strategy(shard):
    base = sa.scenario(n_contests=(1, 2), kinds=shard["kinds"], audit_types=(shard["audit_type"],), use_style=shard["use_style"])
    if shard.get("big"):
        return st.tuples(base, st.sampled_from([4097, 4500, 8193, 10001, 12345]), st.integers(0, 30)).map(lambda t: dict(t[0], size=t[1] + t[2]))
    return base


def evaluate(case, out):
    import numpy as np

    us = case["use_style"]
    if case.get("size"):
        case = sa.expand(case, case["size"])
        out.cls("thousands-of-cards")
    try:
        audit, contests, cvrs, mvrs = sa.build(case)
    except Exception as e:  # noqa
        out.lib_exception("build", e)
        return
    feats = set()
    judged = 0
    if case.get("pool_workflow", True) and any(c["pool"] for c in case["cards"]):
        # the population under audit: after pool_contests + add_pool_contests every pooled CVR lists every contest that any
        # pooled CVR of its tally pool lists (otherwise cards of a pooled batch silently drop out of the audit)
        need = {}
        for c in case["cards"]:
            if c["pool"]:
                need.setdefault(repr(c["tally_pool"]), set()).update(c["votes"].keys())
        for c, lib in zip(case["cards"], cvrs):
            if c["pool"]:
                missing = need[repr(c["tally_pool"])] - set(lib.votes.keys())
                if not out.expect(not missing, "pooled-cvr-does-not-list-a-contest-of-its-pool", lambda: (c["id"], c["tally_pool"], sorted(missing))):
                    return
    if any(c.phantom for c in cvrs):
        feats.add("phantom-cvr")
    if any(c.pool for c in cvrs):
        feats.add("pooled")
    if any(m.phantom for m in mvrs):
        feats.add("unfindable")
    differs = False
    pre = len(cvrs) % 4 == 3
    if pre:
        # every assertion was created with the same (empty) dict as its batch means, and margins and batch means of ALL
        # assertions are computed up front, as the pipeline does; then each assertion is scored
        shared = {}
        try:
            for con in contests.values():
                for a in con.assertions.values():
                    a.assorter.tally_pool_means = shared
            for con in contests.values():
                for a in con.assertions.values():
                    if con.audit_type == "ONEAUDIT":
                        a.assorter.set_tally_pool_means(cvr_list=cvrs, use_style=us)
                    a.set_margin_from_cvrs(audit, cvrs)
        except Exception as e:  # noqa
            out.lib_exception("setup-all-assertions-first", e)
            return
        feats.add("all-assertions-set-up-first(shared-initial-dict)")
    for cid, con in contests.items():
        out.cls(case["contests"][cid]["kind"], con.audit_type)
        pop = [i for i, c in enumerate(cvrs) if (c.has_contest(cid) or not us)]
        if not pop:
            out.skip("empty-population")
            continue
        for key, a in con.assertions.items():
            try:
                j0 = next((j for j in pop if cid in cvrs[j].votes), None)
                if not pre and len(cvrs) % 3 == 2 and j0 is not None and len(cvrs) <= 200:
                    # a first pass over this very list while one of its cards did not yet list the contest (the card was
                    # completed in place afterwards, as add_pool_contests / update_votes do): the margin is that of the list as it is now
                    keep = cvrs[j0].votes.pop(cid)
                    try:
                        a.set_margin_from_cvrs(audit, cvrs)
                    except Exception:  # noqa  (the contest may then be on no card at all)
                        pass
                    cvrs[j0].votes[cid] = keep
                    feats.add("card-completed-in-place-after-a-first-pass")
                if pre:
                    pass
                elif len(cvrs) % 2 == 0:
                    # a planning pass on a preliminary list (no phantoms yet, only the first cards), then the real one:
                    # margins and pool means must be those of the final list
                    prelim = [c for c in cvrs if not c.phantom][: max(1, len(cvrs) // 2)]
                    if prelim:
                        try:
                            if con.audit_type == "ONEAUDIT":
                                a.assorter.set_tally_pool_means(cvr_list=prelim, use_style=us)
                            a.set_margin_from_cvrs(audit, prelim)
                            feats.add("preliminary-pass-first")
                        except Exception:  # noqa  (the preliminary list may not contain the contest at all)
                            pass
                if pre:
                    pass   # (everything was set up before the first assertion was scored)
                elif len(cvrs) % 4 == 0:
                    # margin first, batch means afterwards: the margin of a CVR list does not depend on whether (stale)
                    # batch means happen to be stored
                    a.set_margin_from_cvrs(audit, cvrs)
                    if con.audit_type == "ONEAUDIT":
                        a.assorter.set_tally_pool_means(cvr_list=cvrs, use_style=us)
                else:
                    if con.audit_type == "ONEAUDIT":
                        a.assorter.set_tally_pool_means(cvr_list=cvrs, use_style=us)
                    if len(cvrs) % 5 == 1:
                        # the pipeline call that sets every margin of the contest(s) at once
                        from shangrla.core.Audit import Assertion
                        Assertion.set_all_margins_from_cvrs(audit, {cid: con}, cvrs)
                        feats.add("margins-by-set_all_margins_from_cvrs")
                    else:
                        a.set_margin_from_cvrs(audit, cvrs)
                v = a.margin
                u = a.assorter.upper_bound
                means = a.assorter.tally_pool_means or {}
                if any(cvrs[i].pool and np.isnan(means.get(cvrs[i].tally_pool, 0.0)) for i in pop):
                    out.skip("nan-pool-mean")
                    continue
                if len(cvrs) % 2 == 1:
                    # the same assertion scored an earlier export before: same card identifiers, other contents
                    # (what a card's CVR said then is of no consequence now)
                    from shangrla.core.Audit import CVR
                    real = [c for c in cvrs if not c.phantom]
                    rot = {id(c): real[(k + 1) % len(real)].votes for k, c in enumerate(real)} if real else {}
                    for i in pop:
                        c = cvrs[i]
                        old = CVR(id=c.id, votes=copy.deepcopy(rot.get(id(c), c.votes)), phantom=c.phantom, tally_pool=c.tally_pool, pool=c.pool)
                        try:
                            a.overstatement_assorter(mvrs[i], old, use_style=us)
                        except Exception:  # noqa  (the earlier export may lack the contest on that card)
                            pass
                    feats.add("an-earlier-export-with-the-same-ids-was-scored")
                if len(cvrs) % 3 == 0:
                    # the Contest object's own use_style attribute (True unless the caller sets it) need not agree with the
                    # stratum's: what is passed to overstatement_assorter decides
                    keep_us = con.use_style
                    con.use_style = not us
                    feats.add("contest.use_style!=argument")
                try:
                    B = [a.overstatement_assorter(mvrs[i], cvrs[i], use_style=us) for i in pop]
                finally:
                    if len(cvrs) % 3 == 0:
                        con.use_style = keep_us
                A = []
                for i in pop:
                    m = mvrs[i]
                    if m.phantom or (us and not m.has_contest(cid)):
                        A.append(0.0)
                        if not m.phantom:
                            feats.add("mvr-lacks-contest")
                    else:
                        A.append(a.assorter.assort(m))
                        if not cvrs[i].phantom and a.assorter.assort(m) != a.assorter.assort(cvrs[i]):
                            differs = True
            except Exception as e:  # noqa
                out.lib_exception("overstatement", e)
                return
            judged += 1
            own_v = 2 * float(np.mean([a.assorter.assort(cvrs[i]) for i in pop])) - 1
            out.expect(abs(v - own_v) <= 1e-9, "margin!=2*mean(assort(CVR))-1-over-the-cards-under-audit", lambda: (cid, key, v, own_v))
            lhs = float(np.mean(B)) - 0.5
            rhs = (2 * float(np.mean(A)) - 1) / (2 * (2 * u - v))
            out.expect(abs(lhs - rhs) <= 1e-9, "reduction-identity",
                       lambda: {"contest": cid, "assertion": key, "lhs": lhs, "rhs": rhs, "v": v, "u": u, "use_style": us, "n": len(pop)})
            # u installed in the test is the comparison bound
            out.expect(abs(a.test.u - 2 / (2 - v / u)) <= 1e-12, "test-u-not-installed", lambda: (a.test.u, v, u))
    out.cls(*sorted(feats))
    out.nontrivial = judged > 0 and (differs or "unfindable" in feats or "mvr-lacks-contest" in feats) and bool(feats)
