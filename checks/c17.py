"""C17  Each sample number maps to exactly one card; manifests account for every card."""
import io
import contextlib

from hypothesis import strategies as st

ID = "C17"
TECHNIQUE = "reference model (manifest expanded into a list of cards) vs. the cumulative-count lookup on Hypothesis-generated manifests, both vendor formats"
RULE = (
    "case = vendor (Dominion 1-based / Hart 0-based), 1..8 batches with sizes 0..6 (total >= 1, empty batches included), card "
    "bound = total + extra (extra >= 0 makes a phantom batch), a permutation or sub-sample of ALL valid sample numbers, a "
    "CVR-driven sample over generated CVR ids with phantom CVRs, plus refused manifests (total > bound, total < #CVRs). "
    "Oracle: expansion[s] = (batch row, position); lookup must be that bijection; selection_order = draw index; phantom MVRs "
    "exactly for the phantom batch. Non-trivial = an empty batch or a phantom batch or >=3 batches, and >=2 sampled cards. "
    "distinct = canonical JSON."
)
ASSUMPTIONS = [
    "(tabulator, batch) pairs are unique per manifest row; sizes are non-negative integers",
    "Dominion sample numbers are 1..bound, Hart sample numbers are 0..bound-1 (as each module documents)",
    "CVR ids have the shape each vendor module splits: 'tab-batch-num' (Dominion), 'batch_num' (Hart), 'phantom-1-k' for phantoms",
]


def shards(tier):
    n = 400 if tier == "quick" else 6000
    return [{"name": f"{v}-{i}", "vendor": v, "examples": n} for v in ("dominion", "hart") for i in (1, 2)]


def strategy(shard):
    @st.composite
    def case(draw):
        nb = draw(st.integers(1, 8))
        sizes = draw(st.lists(st.sampled_from([0, 0, 1, 2, 3, 4, 6]), min_size=nb, max_size=nb))
        if sum(sizes) == 0:
            sizes[draw(st.integers(0, nb - 1))] = draw(st.integers(1, 4))
        huge = draw(st.integers(0, 7)) == 0
        if huge:
            # a jurisdiction with tens of millions of cards (card numbers beyond 2^24 and 2^31)
            sizes = [draw(st.sampled_from([10 ** 7, 2 ** 24, 3 * 10 ** 7, 2 ** 31])) if draw(st.booleans()) else s for s in sizes]
            if max(sizes) < 10 ** 7:
                sizes[0] = 2 ** 24 + 5
        total = sum(sizes)
        extra = draw(st.sampled_from([0, 0, 1, 2, 5]))
        bound = total + extra
        full = draw(st.booleans())
        lo = 1 if shard["vendor"] == "dominion" else 0
        if huge:
            edges, acc = set(), 0
            for s in sizes + [extra]:
                for d in (-2, -1, 0, 1):
                    edges.update(v for v in (acc + d + lo, acc + s + d + lo) if lo <= v < lo + bound)
                acc += s
            edges.update(draw(st.lists(st.integers(lo, lo + bound - 1), max_size=5)))
            perm = list(draw(st.permutations(sorted(edges))))
            sample = perm[: draw(st.integers(1, len(perm)))]
        else:
            nums = list(range(lo, lo + bound))
            perm = list(draw(st.permutations(nums)))
            sample = perm if full else perm[: draw(st.integers(1, len(perm)))]
        n_cvrs = draw(st.integers(0, total))
        refuse = draw(st.sampled_from([None, None, None, "too-large", "too-few-cards"]))
        # CVR-driven lookup: one CVR per manifest card (a prefix of them) + phantom CVRs
        ncv = draw(st.integers(1, min(total, 40)))
        nph = draw(st.integers(0, 3))
        cs = list(draw(st.permutations(list(range(ncv + nph)))))
        cvr_sample = cs[: draw(st.integers(1, len(cs)))]
        return {"vendor": shard["vendor"], "sizes": sizes, "extra": extra, "sample": sample, "n_cvrs": n_cvrs, "refuse": refuse,
                "ncv": ncv, "nph": nph, "cvr_sample": cvr_sample,
                # row labels of the manifest sheet (the batches are its rows, in row order, whatever their labels)
                "index": draw(st.sampled_from(["range", "range", "gaps", "reversed", "repeated"])),
                "small_names": draw(st.sampled_from([False, False, True, "suffixes"]))}

    return case()


def _manifest(case):
    import pandas as pd

    sizes = case["sizes"]
    if case["vendor"] == "dominion":
        rows = [{"Tray #": 1 + i % 3, "Tabulator Number": 10 + i // 2, "Batch Number": 100 + i, "Total Ballots": s,
                 "VBMCart.Cart number": 7 + i % 2} for i, s in enumerate(sizes)]
    else:
        # batches are called 100, 101, ... or simply 1, 2, ... (the phantom batch that prep_manifest appends is called 1 too)
        base = 1 if case.get("small_names") else 100
        names = [base + i for i in range(len(sizes))]
        if case.get("small_names") == "suffixes":
            names = [112, 12, 2, 212, 1112, 22, 1, 11][: len(sizes)]   # each a suffix of an earlier or later one
        rows = [{"Container": f"box{i % 2}", "Tabulator": 10 + i // 2, "Batch Name": names[i], "Number of Ballots": s}
                for i, s in enumerate(sizes)]
    df = pd.DataFrame(rows)
    ix = case.get("index", "range")
    if ix == "gaps":          # rows were filtered out of a larger sheet: the labels have gaps
        df.index = [3 * i + 2 for i in range(len(df))]
    elif ix == "reversed":    # the sheet was sorted: labels are no longer in row order
        df.index = list(range(len(df)))[::-1]
    elif ix == "repeated":    # several sheets concatenated without renumbering
        df.index = [i % 2 for i in range(len(df))]
    return df


def evaluate(case, out):
    import numpy as np
    from shangrla.core.Audit import CVR
    from shangrla.formats.Dominion import Dominion
    from shangrla.formats.Hart import Hart

    V = Dominion if case["vendor"] == "dominion" else Hart
    dom = case["vendor"] == "dominion"
    sizes = case["sizes"]
    total = sum(sizes)
    bound = total + case["extra"]
    out.cls(case["vendor"], "row-labels:" + case.get("index", "range"))
    # ---- refusal of inconsistent manifests
    if case["refuse"]:
        out.cls("refused-" + case["refuse"])
        try:
            with contextlib.redirect_stdout(io.StringIO()):
                if case["refuse"] == "too-large":
                    V.prep_manifest(_manifest(case), max(0, total - 1), 0)
                else:
                    V.prep_manifest(_manifest(case), bound, total + 1)
            out.fail("inconsistent-manifest-accepted", (case["refuse"], sizes))
        except AssertionError:
            pass
        except Exception as e:  # noqa
            out.lib_exception("prep_manifest(refuse)", e)
        return
    # ---- preparation
    try:
        df = _manifest(case)
        if dom and len(sizes) % 2 == 0:
            # the same manifest object was prepared before, against a larger card bound (the bound was revised since)
            V.prep_manifest(df, bound + 3, case["n_cvrs"])
            out.cls("manifest-prepared-before")
        if sizes and len(sizes) % 3 == 1:
            # the sheet first carried a typing error in one batch's count, large enough to exceed the bound: refused; the
            # count was corrected in the same sheet, which is now prepared
            j, col = len(sizes) // 2, df.columns.get_loc("Total Ballots" if dom else "Number of Ballots")
            df.iloc[j, col] = sizes[j] + bound + 1
            try:
                with contextlib.redirect_stdout(io.StringIO()):
                    V.prep_manifest(df, bound, case["n_cvrs"])
                out.fail("inconsistent-manifest-accepted", ("typing-error", sizes, j))
            except AssertionError:
                out.cls("sheet-refused-once-then-corrected")
            df.iloc[j, col] = sizes[j]
        man, man_cards, ph = V.prep_manifest(df, bound, case["n_cvrs"])
    except Exception as e:  # noqa
        out.lib_exception("prep_manifest", e)
        return
    szcol = "Total Ballots" if dom else "Number of Ballots"
    tabcol, batcol = ("Tabulator Number", "Batch Number") if dom else ("Tabulator", "Batch Name")
    out.expect(int(man_cards) == total and int(ph) == case["extra"], "prep:counts", lambda: (man_cards, ph, total, case["extra"]))
    want_rows = len(sizes) + (1 if case["extra"] > 0 else 0)
    if not out.expect(len(man) == want_rows, "prep:phantom-batch-iff-shortfall", lambda: (len(man), want_rows)):
        return
    got_sizes = [int(float(v)) for v in man[szcol]]
    out.expect(got_sizes == sizes + ([case["extra"]] if case["extra"] else []), "prep:batch-sizes", lambda: got_sizes)
    cum = [int(v) for v in man["cum_cards"]]
    out.expect(cum == list(np.cumsum(got_sizes)) and cum[-1] == bound, "prep:cumulative-counts-account-for-the-bound", lambda: (cum, bound))
    if case["extra"]:
        out.expect(str(man.iloc[-1][tabcol]) == "phantom", "prep:phantom-row-label", lambda: str(man.iloc[-1][tabcol]))
    # ---- expansion (reference model)
    rows = [(str(man.iloc[r][tabcol]), str(man.iloc[r][batcol])) for r in range(len(man))]
    # position i (0-based, over all cards in manifest order) -> (row, card within the batch): integer arithmetic
    import bisect
    starts = [0]
    for s in got_sizes:
        starts.append(starts[-1] + s)

    def locate(i):
        r = bisect.bisect_right(starts, i) - 1
        return r, (i - starts[r] + 1 if dom else i - starts[r])

    sample = case["sample"]
    try:
        if len(sample) % 2 == 1:
            # the sample as the samplers return it: a numpy array of ints (in order of selection)
            cards, order, mvr_ph = V.sample_from_manifest(man, np.array(sample, dtype=np.int64))
            out.cls("sample-as-numpy-array")
        else:
            cards, order, mvr_ph = V.sample_from_manifest(man, list(sample))
    except Exception as e:  # noqa
        out.lib_exception("sample_from_manifest", e)
        return
    want_ids = []
    for s in sample:
        r, p = locate(s - 1 if dom else s)
        want_ids.append(f"{rows[r][0]}-{rows[r][1]}-{p}")
    out.expect(len(set(want_ids)) == len(want_ids), "reference-not-injective(generator bug)", lambda: want_ids)
    got_ids = [c[-2] if dom else c[-1] for c in cards]
    out.expect(sorted(got_ids) == sorted(want_ids), "lookup!=expansion", lambda: {"got": sorted(got_ids)[:12], "want": sorted(want_ids)[:12], "sizes": got_sizes})
    for k, cid in enumerate(want_ids):
        if not out.expect(cid in order and order[cid].get("selection_order") == k, "selection-order", lambda: (cid, order.get(cid), k)):
            break
    for c in cards:
        r_p = c[-3] if dom else c[-2]
        size_ok = any(f"{rows[r][0]}-{rows[r][1]}-{r_p}" == (c[-2] if dom else c[-1]) and ((1 <= r_p <= got_sizes[r]) if dom else (0 <= r_p < got_sizes[r]))
                      for r in range(len(rows)))
        if not out.expect(size_ok, "position-outside-batch", lambda: c):
            break
    want_ph = sorted(i for i in want_ids if i.startswith("phantom-"))
    out.expect(sorted(m.id for m in mvr_ph) == want_ph and all(m.phantom for m in mvr_ph), "phantom-mvrs", lambda: ([m.id for m in mvr_ph], want_ph))
    # ---- CVR-driven lookup
    cvrs = []
    k = 0
    for r, s in enumerate(sizes):
        for p in range(1, min(s, case["ncv"] - k) + 1):
            cid = f"{rows[r][0]}-{rows[r][1]}-{p}" if dom else f"{rows[r][1]}_{p}"
            cvrs.append(CVR(id=cid, card_in_batch=p, votes={}))
            k += 1
    if case["nph"] >= 2 and len(cvrs) % 2 == 1:
        # the phantom records as CVR.make_phantoms creates them for a style-based audit of two contests, the second of
        # which is short of more cards than the first
        from shangrla.core.Audit import Audit, Contest

        try:
            for c in cvrs:
                c.votes = {"K0": {}, "K1": {}}
            cons = Contest.from_dict_of_dicts({cid: {"name": cid, "cards": len(cvrs) + extra_, "choice_function": "PLURALITY", "n_winners": 1,
                                                     "candidates": ["A", "B"], "winner": ["A"]}
                                               for cid, extra_ in (("K0", 1), ("K1", case["nph"]))})
            aud = Audit.from_dict({"strata": {"s": {"max_cards": len(cvrs) + case["nph"], "use_style": True}}})
            cvrs, _ = CVR.make_phantoms(audit=aud, contests=cons, cvr_list=cvrs, prefix="phantom-1-")
            out.cls("phantom-cvrs-from-make_phantoms")
        except Exception as e:  # noqa
            out.lib_exception("make_phantoms", e)
            return
    else:
        cvrs += [CVR(id=f"phantom-1-{j + 1}", votes={}, phantom=True) for j in range(case["nph"])]
    cs = [s for s in case["cvr_sample"] if s < len(cvrs)]
    if cs:
        out.expect(len({cvrs[s].id for s in cs}) == len(cs), "two-sampled-records-share-one-card-identifier", lambda: [cvrs[s].id for s in cs])
        try:
            cards2, order2, cvr_s, mvr2 = V.sample_from_cvrs(cvrs, man, np.array(cs))
        except Exception as e:  # noqa
            out.lib_exception("sample_from_cvrs", e)
            return
        out.expect(len(cvr_s) == len(cs) and all(a is cvrs[s] for a, s in zip(cvr_s, cs)), "cvr-sample!=selected-cvrs-in-order", lambda: [c.id for c in cvr_s])
        for kk, s in enumerate(cs):
            cid = cvrs[s].id
            if not out.expect(cid in order2 and order2[cid].get("selection_order") == kk, "cvr-selection-order", lambda: (cid, order2.get(cid), kk)):
                break
        out.expect(sorted(c[-1] for c in cards2) == sorted(cvrs[s].id for s in cs), "cvr-card-identifiers", lambda: [c[-1] for c in cards2])
        # where to find each real card: the location fields are those of the card's own batch in the manifest
        bycard = {c[-1]: c for c in cards2}
        for s in cs:
            cv = cvrs[s]
            if cv.phantom or cv.id not in bycard:
                continue
            if dom:
                tb, bt, _p = cv.id.split("-")
                r = next(r for r in range(len(rows)) if rows[r] == (tb, bt))
                want_loc = [str(man.iloc[r]["VBMCart.Cart number"]), str(man.iloc[r]["Tray #"]), tb, bt]
                got_loc = [str(v) for v in bycard[cv.id][:4]]
            else:
                bt, _p = cv.id.split("_")
                r = next(r for r in range(len(rows)) if rows[r][1] == bt and rows[r][0] != "phantom")
                want_loc = [rows[r][0], bt]
                got_loc = [str(v) for v in bycard[cv.id][:2]]
            if not out.expect(got_loc == want_loc, "cvr-card-location", lambda: (cv.id, got_loc, want_loc)):
                break
        wantp = sorted(cvrs[s].id for s in cs if cvrs[s].phantom)
        out.expect(sorted(m.id for m in mvr2) == wantp and all(m.phantom for m in mvr2), "cvr-phantom-mvrs", lambda: ([m.id for m in mvr2], wantp))
    feats = []
    if 0 in sizes:
        feats.append("empty-batch")
    if case["extra"]:
        feats.append("phantom-batch")
    if len(sizes) >= 3:
        feats.append(">=3-batches")
    out.cls(*feats)
    out.nontrivial = bool(feats) and len(sample) >= 2
