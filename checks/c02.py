"""C02  Assorter means exceed 1/2 exactly when the reported winners really won."""
import math
from fractions import Fraction

from hypothesis import strategies as st

from strategies import audit as sa

ID = "C02"
TECHNIQUE = "Hypothesis-generated ballot collections vs. an independent integer tally (reference model); tally-margin identity"
RULE = (
    "case = (contest kind plurality/approval/super-majority, candidates, winner set or winner + share p/q, 0..40 ballots "
    "with arbitrary truthy/falsy marks, blank ballots, ballots lacking the contest; in a third of the cases the cards also carry a "
    "second tallied contest with valid votes / overvotes). Oracle: own integer tally. "
    "Non-trivial = >=2 distinct ballot shapes and at least one of {tie between a winner and a loser, exact threshold, "
    "overvote, ballot lacking the contest, k>=2}. distinct = canonical JSON."
)
ASSUMPTIONS = [
    "marks are placed on the contest's own candidates, or a ballot carries a write-in mark and nothing else; a ballot mixing candidate marks with a write-in mark is not generated (the tally and the assorter legitimately disagree about its validity)",
    "for plurality/approval a 'vote' is a truthy mark, as the shipped assorter and Contest.tally(enforce_rules=False) count it",
    "exact ties of a super-majority contest are judged only when 1/(2f) is a power of two; otherwise the float sum at a tie is rounding-dependent and the case is counted as tie_skipped",
    "tally margins are compared with 2*mean-1 at relative tolerance 1e-9",
]


def shards(tier):
    n = 700 if tier == "quick" else 25000
    return [{"name": k + str(i), "kind": k, "examples": n} for k in ("plurality", "approval", "super") for i in (1, 2)] + [
        # collections of thousands of cards (a generated collection repeated up to a size of 4097 .. 40000, then a remainder):
        # few cases, since each costs about a second
        {"name": k + "-big", "kind": k, "examples": 6 if tier == "quick" else 120, "big": True} for k in ("plurality", "super")]


def strategy(shard):
    kind = shard["kind"]

    @st.composite
    def case(draw):
        ncand = draw(st.integers(2, 6))
        cands = list(sa.CANDS[:ncand])
        if draw(st.integers(0, 5)) == 0:
            # names are labels: one of them carries a trailing blank (a padded export column), identically everywhere
            k = draw(st.integers(0, ncand - 1))
            cands[k] = cands[k] + " "
        if draw(st.integers(0, 4)) == 0:
            # the write-in line is a candidate of the contest (the Hart reader lists it under this name): a contestant like any other
            cands[draw(st.integers(0, ncand - 1))] = "WRITE_IN"
        if kind == "super":
            winners = [draw(st.sampled_from(cands))]
            q = draw(st.integers(2, 12))
            p = draw(st.integers(1, q - 1))
            if draw(st.integers(0, 3)) == 0:
                p, q = draw(st.sampled_from([(1, 2), (1, 2), (2, 3), (3, 5), (1, 4), (3, 4)]))
            f = f"{p}/{q}"
        else:
            k = draw(st.integers(1, ncand - 1))
            winners = draw(st.lists(st.sampled_from(cands), min_size=k, max_size=k, unique=True))
            f = None
        n = draw(st.integers(0, 40))
        # a few popular shapes repeated make ties and exact thresholds likely
        pool = draw(st.lists(sa.ballot(cands, write_in=True), min_size=1, max_size=6))
        ballots = [draw(st.sampled_from(pool)) if draw(st.integers(0, 3)) else draw(sa.ballot(cands, write_in=True)) for _ in range(n)]
        # the cards may carry a second tallied contest (listed before or after this one): what a card shows there
        # - nothing, a valid vote, an overvote - is no business of this contest's tally
        aux = None
        if draw(st.integers(0, 2)) == 0:
            mark = st.sampled_from([None, None, {"X": 1}, {"Y": True}, {"X": 1, "Y": 1}, {"X": 1, "Y": 1, "Z": 1}, {}])
            aux = {"first": draw(st.booleans()), "n_winners": draw(st.sampled_from([1, 1, 2])), "ballots": [draw(mark) for _ in range(n)],
                   # ... which may be one that Contest.tally does not tabulate at all (a ranked contest)
                   "irv": draw(st.sampled_from([False, False, True]))}
        size = None
        if shard.get("big") and ballots:
            size = draw(st.sampled_from([4097, 5000, 8193, 10001, 10500, 12345, 20001, 32769, 40000])) + draw(st.integers(0, 40))
            if kind == "plurality" and draw(st.integers(0, 2)) == 0:
                # a photo finish: one vote between the first winner and the first loser among 120001 cards (the mean is
                # within 5e-6 of 1/2 without being 1/2)
                first_loser = next(c for c in cands if c not in winners)
                ballots, aux, size = [{winners[0]: True}, {first_loser: True}], None, 120001
        return {"kind": kind, "cands": cands, "winners": winners, "f": f, "ballots": ballots, "aux": aux, "size": size,
                # what the records are called is nobody's business in a tally: unnamed records, or all under one default name
                "ids": draw(st.sampled_from(["unique", "unique", "unique", "none", "same"]))}

    return case()


def build(case, use_style):
    from shangrla.core.Audit import Assertion, Audit, Contest, CVR
    from shangrla.core.NonnegMean import NonnegMean

    kind = case["kind"]
    cf = {"plurality": "PLURALITY", "approval": "APPROVAL", "super": "SUPERMAJORITY"}[kind]
    d = {"name": "con", "risk_limit": 0.05, "cards": max(1, len(case["ballots"])), "choice_function": cf,
         "n_winners": len(case["winners"]), "candidates": list(case["cands"]), "winner": list(case["winners"]),
         "audit_type": Audit.AUDIT_TYPE.POLLING, "test": NonnegMean.alpha_mart, "estim": NonnegMean.shrink_trunc,
         "use_style": use_style, "test_kwargs": {}}
    if kind == "super":
        d["share_to_win"] = float(Fraction(case["f"]))
    aux = case.get("aux")
    if aux:
        irv = bool(aux.get("irv"))
        da = {"name": "aux", "risk_limit": 0.05, "cards": max(1, len(case["ballots"])), "choice_function": "IRV" if irv else "PLURALITY",
              "n_winners": 1 if irv else aux["n_winners"], "candidates": ["X", "Y", "Z"], "winner": ["X"] if irv else ["X", "Y"][: aux["n_winners"]],
              "audit_type": Audit.AUDIT_TYPE.POLLING, "test": NonnegMean.alpha_mart, "estim": NonnegMean.shrink_trunc,
              "use_style": use_style, "test_kwargs": {}}
        contests = Contest.from_dict_of_dicts({"aux": da, "con": d} if aux["first"] else {"con": d, "aux": da})
    else:
        contests = Contest.from_dict_of_dicts({"con": d})
    con = contests["con"]
    losers = [c for c in case["cands"] if c not in case["winners"]]
    if kind == "approval":
        con.assertions = Assertion.make_plurality_assertions(contest=con, winner=list(case["winners"]), loser=losers,
                                                             test=NonnegMean.alpha_mart, estim=NonnegMean.shrink_trunc)
    elif kind == "super" and len(case["ballots"]) % 2 == 1:
        # called directly, as the library's own test does, without the optional share_to_win argument:
        # the contest's share governs
        # (the caller's list of losers is the caller's: the constructor was already called once with the same list object)
        keep = list(losers)
        Assertion.make_supermajority_assertion(contest=con, winner=case["winners"][0], loser=losers,
                                               test=NonnegMean.alpha_mart, estim=NonnegMean.shrink_trunc)
        con.assertions = Assertion.make_supermajority_assertion(contest=con, winner=case["winners"][0], loser=losers,
                                                                test=NonnegMean.alpha_mart, estim=NonnegMean.shrink_trunc)
        if losers != keep:
            raise AssertionError(f"make_supermajority_assertion altered the caller's loser list: {losers} (was {keep})")
    else:
        Assertion.make_all_assertions({"con": con})   # (the second contest on the cards needs no assertions here)
    cvrs = []
    for i, b in enumerate(case["ballots"]):
        votes = {} if b is None else {"con": dict(b)}
        ids = case.get("ids", "unique")
        cid = f"c{i}" if ids == "unique" else (None if ids == "none" else "1")
        if aux and aux["ballots"][i] is not None:
            votes = {"aux": dict(aux["ballots"][i]), **votes} if i % 2 else {**votes, "aux": dict(aux["ballots"][i])}
        cvrs.append(CVR(id=cid, votes=votes))
    return contests, con, cvrs, losers


def evaluate(case, out):
    import numpy as np
    from shangrla.core.Audit import Contest

    if case.get("size"):
        # the collection repeated up to the given size (the last repetition is cut short)
        n0, size = len(case["ballots"]), case["size"]
        rep = lambda lst: (lst * (size // n0 + 1))[:size]
        case = dict(case, ballots=rep(case["ballots"]), aux=(dict(case["aux"], ballots=rep(case["aux"]["ballots"])) if case.get("aux") else None))
        out.cls("thousands-of-cards")
    kind, cands, winners, ballots = case["kind"], case["cands"], case["winners"], case["ballots"]
    out.cls(kind)
    have = [b for b in ballots if b is not None]
    shapes = {repr(sorted((k, bool(v)) for k, v in b.items())) if b is not None else "missing" for b in ballots}
    tally = {c: sum(1 for b in have if sa.truthy(b.get(c, False))) for c in cands}
    nmarks = [sum(1 for c in cands if sa.truthy(b.get(c, False))) for b in have]
    feats = set()
    if any(b is None for b in ballots):
        feats.add("lacks-contest")
    if any(m >= 2 for m in nmarks):
        feats.add("overvote")
    if len(winners) >= 2:
        feats.add("k>=2")
    if case.get("aux"):
        out.cls("second-tallied-contest-on-the-cards")
    losers = [c for c in cands if c not in winners]

    for use_style in (True, False):
        try:
            contests, con, cvrs, _ = build(case, use_style)
        except Exception as e:  # noqa
            out.lib_exception("build", e)
            return
        pop = [c for c in cvrs if (c.has_contest("con") or not use_style)]
        j0 = next((j for j, c in enumerate(cvrs) if c.has_contest("con")), None)
        if len(cvrs) % 4 == 1 and j0 is not None and len(cvrs) <= 200:
            # a first look at the means was taken before one card of this very list was corrected in place (it showed a vote
            # for the last candidate only); means and margins are whatever the cards say now
            keep = cvrs[j0].votes["con"]
            cvrs[j0].votes["con"] = {cands[-1]: True}
            try:
                for a in con.assertions.values():
                    a.assorter.mean(cvrs, use_style=use_style)
            except Exception as e:  # noqa
                out.lib_exception("assort(first look)", e)
                return
            cvrs[j0].votes["con"] = keep
            feats.add("card-corrected-in-place-after-a-first-look")
        if kind in ("plurality", "approval"):
            if not out.expect(len(con.assertions) == len(winners) * len(losers), "assertion-count", lambda: list(con.assertions)):
                return
            all_gt = True
            for key, a in con.assertions.items():
                w, l = a.winner, a.loser
                try:
                    vals = [a.assorter.assort(c) for c in pop]
                    mean = a.assorter.mean(cvrs, use_style=use_style) if pop else float("nan")
                except Exception as e:  # noqa
                    out.lib_exception("assort", e)
                    return
                out.expect(all(0 <= v <= a.assorter.upper_bound for v in vals), "assort-out-of-range", lambda: (key, vals[:10]))
                want = tally[w] > tally[l]
                got = bool(mean > 0.5)
                if tally[w] == tally[l] and pop:
                    feats.add("tie")
                out.expect(got == want, "pairwise-mean-vs-tally", lambda: (key, use_style, mean, tally[w], tally[l]))
                all_gt = all_gt and got
                # margin from the tally over the same cards
                if pop:
                    try:
                        if len(cvrs) % 2 == 0:  # a first tally of a preliminary export, then the real one
                            Contest.tally(contests, cvrs[: len(cvrs) // 2 + 1], enforce_rules=False)
                        if len(cvrs) % 3 == 0:  # the tally handed over by the caller, whatever an earlier export left stored in the contest
                            feats.add("explicit-tally")
                            con.cards = len(pop)
                            a.find_margin_from_tally(tally=dict(tally))
                        else:
                            Contest.tally(contests, cvrs, enforce_rules=False)
                            con.cards = len(pop)
                            a.find_margin_from_tally()
                        m = a.margin
                    except Exception as e:  # noqa
                        out.lib_exception("tally-margin", e)
                        return
                    out.expect(abs(m - (2 * mean - 1)) <= 1e-9, "tally-margin-vs-mean", lambda: (key, use_style, m, 2 * mean - 1))
            if pop:
                # the rule-enforcing tally (the default): cards with more marks than seats count for nobody, all others as above
                try:
                    Contest.tally(contests, cvrs)
                except Exception as e:  # noqa
                    out.lib_exception("tally(enforce_rules)", e)
                    return
                ref = {c: sum(1 for b, m in zip(have, nmarks) if m <= len(winners) and sa.truthy(b.get(c, False))) for c in cands}
                got_t = {c: int(con.tally.get(c, 0)) for c in cands}
                out.expect(got_t == ref, "rule-enforcing-tally!=reference", lambda: (use_style, got_t, ref, len(winners)))
            won = all(tally[w] > tally[l] for w in winners for l in losers)
            if pop:
                out.expect(all_gt == won, "conjunction-vs-social-choice", lambda: (use_style, tally, winners))
        else:
            f = Fraction(case["f"])
            p, q = f.numerator, f.denominator
            w = winners[0]
            valid = [b for b, m in zip(have, nmarks) if m == 1]
            W = sum(1 for b in valid if sa.truthy(b.get(w, False)))
            V = len(valid)
            a = next(iter(con.assertions.values()))
            ub = a.assorter.upper_bound
            out.expect(abs(ub - 1 / (2 * float(f))) <= 1e-12 * ub, "super-upper-bound", lambda: (ub, float(f)))
            try:
                vals = [a.assorter.assort(c) for c in pop]
                mean = a.assorter.mean(cvrs, use_style=use_style) if pop else float("nan")
            except Exception as e:  # noqa
                out.lib_exception("assort", e)
                return
            out.expect(all(0 <= v <= ub * (1 + 1e-12) for v in vals), "assort-out-of-range", lambda: vals[:10])
            if pop:
                if W * q == p * V:
                    feats.add("exact-threshold")
                    pow2 = math.log2(ub) == int(math.log2(ub))
                    if pow2:
                        out.expect(not (mean > 0.5), "super-tie-exceeds-half", lambda: (mean, W, V, case["f"]))
                    else:
                        out.skip("tie_skipped")
                else:
                    out.expect(bool(mean > 0.5) == (W * q > p * V), "super-mean-vs-share", lambda: (use_style, mean, W, V, case["f"]))
                try:
                    if len(cvrs) % 2 == 0:
                        Contest.tally(contests, cvrs[: len(cvrs) // 2 + 1], enforce_rules=True)
                    if len(cvrs) % 3 == 0:  # the caller's own tally of the valid votes; the contest keeps at most a preliminary one
                        feats.add("explicit-tally")
                        con.cards = len(pop)
                        a.find_margin_from_tally(tally={c: sum(1 for b in valid if sa.truthy(b.get(c, False))) for c in cands})
                    else:
                        Contest.tally(contests, cvrs, enforce_rules=True)
                        con.cards = len(pop)
                        a.find_margin_from_tally()
                    m = a.margin
                except Exception as e:  # noqa
                    out.lib_exception("tally-margin", e)
                    return
                out.expect(abs(m - (2 * mean - 1)) <= 1e-9 * max(1, abs(m)), "super-tally-margin-vs-mean", lambda: (use_style, m, 2 * mean - 1, W, V, len(pop)))
    out.cls(*sorted(feats))
    out.nontrivial = len(shapes) >= 2 and bool(feats)
