"""C08  Phantom records account for every possible card and are scored worst-case."""
import copy

from hypothesis import strategies as st

from strategies import audit as sa

ID = "C08"
TECHNIQUE = "reference accounting model for make_phantoms on generated CVR lists / bounds; metamorphic worst-case relation for phantom MVRs"
RULE = (
    "accounting cases: 1..25 CVRs over 1..4 contests with arbitrary styles, per-contest card bounds >= the number of CVRs "
    "listing the contest (or unspecified), stratum bound >= len(CVRs), style on/off, prefix and pool labelling; oracle = the "
    "counts in the statement. scoring cases: audit scenarios (all assorter kinds, pooled/unpooled, phantom CVRs); for every "
    "card B(phantom MVR, cvr) <= B(mvr, cvr) and overstatement(mvr, phantom CVR) == 1/2 - A(mvr). Non-trivial (accounting) = "
    "at least one phantom needed and >=2 contests with different shortfalls or no-style; (scoring) = some MVR scores higher "
    "than a phantom would. distinct = canonical JSON."
)
ASSUMPTIONS = [
    "input CVR lists are non-empty and contain no phantoms (make_phantoms is what creates them); bounds satisfy the stated inequalities",
    "one stratum (stratified audits raise NotImplementedError by design); a contest is identified by its id (make_phantoms is also given dicts keyed otherwise)",
    "scoring relations judged at absolute tolerance 1e-12",
]


def shards(tier):
    n = 1000 if tier == "quick" else 25000
    m = 200 if tier == "quick" else 5000
    return [
        {"name": "accounting-style", "mode": "acct", "use_style": True, "examples": n},
        {"name": "accounting-nostyle", "mode": "acct", "use_style": False, "examples": n},
        {"name": "scoring-comparison", "mode": "score", "audit_type": "CARD_COMPARISON", "examples": m},
        {"name": "scoring-oneaudit", "mode": "score", "audit_type": "ONEAUDIT", "examples": m},
        {"name": "sampled-phantoms", "mode": "formats", "examples": m},
        # tens of thousands of records (a generated list repeated): few cases, each costs about a second
        {"name": "accounting-style-big", "mode": "acct", "use_style": True, "examples": 3 if tier == "quick" else 40, "big": True},
    ]


def strategy(shard):
    if shard["mode"] == "formats":
        return st.fixed_dictionaries({"mode": st.just("formats"), "vendor": st.sampled_from(["dominion", "hart"]),
                                      "sizes": st.lists(st.integers(0, 4), min_size=1, max_size=4).filter(lambda s: sum(s) > 0),
                                      "nph": st.integers(1, 5), "order": st.randoms(use_true_random=False).map(lambda r: r.random()),
                                      "take": st.floats(0.3, 1.0)})
    if shard["mode"] == "score":
        return sa.scenario(n_contests=(1, 2), audit_types=(shard["audit_type"],), n_cards=(3, 20)).map(lambda s: {"mode": "score", "scn": s})

    @st.composite
    def acct(draw):
        ncon = draw(st.integers(1, 4))
        cids = [f"K{i}" for i in range(ncon)]
        n = draw(st.integers(1, 25))
        styles = draw(st.lists(st.lists(st.sampled_from(cids + ["X"]), max_size=ncon + 1, unique=True), min_size=1, max_size=5))
        cards = [sorted(draw(st.sampled_from(styles))) for _ in range(n)]
        size = None
        if shard.get("big"):
            size = draw(st.sampled_from([32768, 32800, 40000, 65537, 70000]))
            cards[0] = sorted(cids)   # (at least one record lists every contest)
            n0, n = n, size
            counts = {c: sum(1 for i in range(size) if c in cards[i % n0]) for c in cids}
        else:
            counts = {c: sum(1 for s in cards if c in s) for c in cids}
        max_cards = n + draw(st.sampled_from([0, 0, 1, 2, 5, 17]))
        bounds = {}
        for c in cids:
            r = draw(st.integers(0, 3))
            if r == 0:
                bounds[c] = None
            else:
                hi = max_cards if draw(st.booleans()) else counts[c] + 6
                bounds[c] = draw(st.integers(counts[c], max(counts[c], hi)))
        return {"mode": "acct", "use_style": shard["use_style"], "contests": bounds, "max_cards": max_cards, "cards": cards, "size": size,
                "prefix": draw(st.sampled_from(["phantom-", "phantom-1-", "P"])),
                "tally_pool": draw(st.sampled_from([None, "pp"])), "pool": draw(st.booleans())}

    return acct()


def evaluate(case, out):
    import numpy as np
    from shangrla.core.Audit import Assertion, Audit, Contest, CVR
    from shangrla.core.NonnegMean import NonnegMean

    if case["mode"] == "formats":
        # every sampled phantom card gets a phantom manual record (vendor lookups), whatever else is in the sample
        import random

        import pandas as pd
        from shangrla.formats.Dominion import Dominion
        from shangrla.formats.Hart import Hart

        dom = case["vendor"] == "dominion"
        V = Dominion if dom else Hart
        sizes, nph = case["sizes"], case["nph"]
        total = sum(sizes)
        out.cls("formats", case["vendor"])
        if dom:
            df = pd.DataFrame([{"Tray #": 1, "Tabulator Number": 10 + i, "Batch Number": 100 + i, "Total Ballots": s, "VBMCart.Cart number": 7}
                               for i, s in enumerate(sizes)])
        else:
            df = pd.DataFrame([{"Container": "b", "Tabulator": 10 + i, "Batch Name": 100 + i, "Number of Ballots": s} for i, s in enumerate(sizes)])
        try:
            man, _, ph = V.prep_manifest(df, total + nph, total)
            cvrs = []
            for i, s in enumerate(sizes):
                for p in range(1, s + 1):
                    cvrs.append(CVR(id=(f"{10 + i}-{100 + i}-{p}" if dom else f"{100 + i}_{p}"), card_in_batch=p, votes={}))
            # (make_phantoms takes the prefix of the phantom identifiers from the caller: word-batch-card is all the lookups need)
            pfx = ["phantom-1-", "unfound-1-", "P-2-"][(total + nph) % 3]
            cvrs += [CVR(id=f"{pfx}{j + 1}", votes={}, phantom=True) for j in range(nph)]
            rng = random.Random(case["order"])
            idx = list(range(len(cvrs)))
            rng.shuffle(idx)
            idx = idx[: max(1, int(len(idx) * case["take"]))]
            _, _, cs, mvr_ph = V.sample_from_cvrs(cvrs, man, np.array(idx))
            lo = 1 if dom else 0
            nums = list(range(lo, lo + total + nph))
            rng.shuffle(nums)
            cards, order, mvr_ph2 = V.sample_from_manifest(man, nums)
        except Exception as e:  # noqa
            out.lib_exception("formats", e)
            return
        out.expect(len(cs) == len(idx) and all(a is cvrs[i] for a, i in zip(cs, idx)), "sampled-cvrs-are-not-the-records-asked-for",
                   lambda: ([getattr(a, "id", a) for a in cs][:6], [cvrs[i].id for i in idx][:6]))
        want = sorted(cvrs[i].id for i in idx if cvrs[i].phantom)
        out.expect(sorted(m.id for m in mvr_ph) == want and all(m.phantom for m in mvr_ph), "sampled-phantom-cvr-without-phantom-mvr",
                   lambda: ([m.id for m in mvr_ph], want))
        out.expect(len(mvr_ph2) == nph and len({m.id for m in mvr_ph2}) == nph and all(m.phantom for m in mvr_ph2),
                   "phantom-batch-cards-without-phantom-mvr", lambda: ([m.id for m in mvr_ph2], nph))
        out.nontrivial = len(want) >= 2
        return
    if case["mode"] == "acct":
        if case.get("size"):
            # the list repeated up to the given number of records
            case = dict(case, cards=[case["cards"][i % len(case["cards"])] for i in range(case["size"])])
            out.cls("tens-of-thousands-of-records")
        us = case["use_style"]
        out.cls("style" if us else "nostyle")
        cids = list(case["contests"])
        contests = Contest.from_dict_of_dicts({c: {"name": c, "cards": case["contests"][c], "choice_function": "PLURALITY",
                                                    "n_winners": 1, "candidates": ["A", "B"], "winner": ["A"]} for c in cids})
        audit = Audit.from_dict({"strata": {"s": {"max_cards": case["max_cards"], "use_style": us}}})
        if (len(case["cards"]) + case["max_cards"]) % 4 == 0:
            # the caller keeps its Contest objects under other keys than their ids (by row, by name ...): a contest is
            # identified by its id, which is what the records list
            contests = {f"row {i}": con for i, con in enumerate(contests.values())}
            out.cls("contests-keyed-by-something-else-than-their-id")
        by_id = {con.id: con for con in contests.values()}
        # (a card may list a contest without any mark in it - an undervote: it lists the contest all the same)
        cvrs = [CVR(id=f"r{i}", votes={c: ({} if (i + k) % 3 == 0 else {"A": 1}) for k, c in enumerate(style)}) for i, style in enumerate(case["cards"])]
        before = [(c, copy.deepcopy(c.votes)) for c in cvrs]
        counts = {c: sum(1 for s in case["cards"] if c in s) for c in cids}
        bound = {c: (case["contests"][c] if (case["contests"][c] is not None and us) else case["max_cards"]) for c in cids}
        try:
            if len(cvrs) % 2 == 0:  # a preliminary export (the first cards only) was processed before
                CVR.make_phantoms(audit=audit, contests=contests, cvr_list=cvrs[: len(cvrs) // 2], prefix="prelim-")
                out.cls("after-an-earlier-call")
            res, n_ph = CVR.make_phantoms(audit=audit, contests=contests, cvr_list=cvrs, prefix=case["prefix"],
                                          tally_pool=case["tally_pool"], pool=case["pool"])
        except Exception as e:  # noqa
            out.lib_exception("make_phantoms", e)
            return
        n = len(cvrs)
        if not out.expect(isinstance(res, list) and len(res) >= n and all(a is b[0] for a, b in zip(res[:n], before)),
                          "originals-not-first-or-not-identical", lambda: [getattr(r, "id", r) for r in res[: n + 2]]):
            return
        out.expect(all(c.votes == v and not c.phantom for c, v in before), "originals-modified", lambda: [c.id for c, v in before if c.votes != v])
        ph = res[n:]
        out.expect(n_ph == len(ph), "phantom-count-returned", lambda: (n_ph, len(ph)))
        out.expect(all(p.phantom is True for p in ph), "phantom-flag", lambda: [p.id for p in ph if not p.phantom])
        ids = [r.id for r in res]
        out.expect(len(set(ids)) == len(ids), "identifiers-not-unique", lambda: ids)
        out.expect(all(str(p.id).startswith(case["prefix"]) for p in ph), "phantom-prefix", lambda: [p.id for p in ph])
        out.expect(all(p.tally_pool == case["tally_pool"] and p.pool == case["pool"] for p in ph), "phantom-pool-labels",
                   lambda: [(p.tally_pool, p.pool) for p in ph])
        short = {c: bound[c] - counts[c] for c in cids}
        if us:
            for c in cids:
                listing = sum(1 for r in res if r.has_contest(c))
                out.expect(listing == bound[c], "records-listing-contest!=card-bound", lambda: (c, listing, bound[c], counts[c]))
            out.expect(len(ph) == max([0] + list(short.values())), "phantoms!=largest-shortfall", lambda: (len(ph), short))
        else:
            out.expect(len(res) == case["max_cards"], "total-records!=stratum-bound", lambda: (len(res), case["max_cards"]))
        for c in cids:
            out.expect(by_id[c].cards == bound[c], "contest.cards", lambda: (c, by_id[c].cards, bound[c]))
            out.expect(int(by_id[c].cvrs) == counts[c], "contest.cvrs", lambda: (c, by_id[c].cvrs, counts[c]))
        if len(ph) > 0:
            out.cls("phantoms-needed")
            if not us or len(set(short.values())) > 1:
                out.nontrivial = True
        if us and len(set(short.values())) > 1:
            out.cls("different-shortfalls")
        return

    # ---------------- scoring
    scn = case["scn"]
    us = scn["use_style"]
    try:
        audit, contests, cvrs, mvrs = sa.build(scn)
    except Exception as e:  # noqa
        out.lib_exception("build", e)
        return
    higher = False
    for cid, con in contests.items():
        out.cls(scn["contests"][cid]["kind"])
        pop = [i for i, c in enumerate(cvrs) if (c.has_contest(cid) or not us)]
        if not pop:
            continue
        for key, a in con.assertions.items():
            try:
                if con.audit_type == "ONEAUDIT":
                    a.assorter.set_tally_pool_means(cvr_list=cvrs, use_style=us)
                a.set_margin_from_cvrs(audit, cvrs)
                means = a.assorter.tally_pool_means or {}
                for i in pop:
                    c, m = cvrs[i], mvrs[i]
                    if c.pool and np.isnan(means.get(c.tally_pool, 0.0)):
                        out.skip("nan-pool-mean")
                        continue
                    phm = CVR(id=c.id, votes={}, phantom=True)
                    b_ph = a.overstatement_assorter(phm, c, use_style=us)
                    b_m = a.overstatement_assorter(m, c, use_style=us)
                    if not out.expect(b_ph <= b_m + 1e-12, "phantom-mvr-scores-higher-than-a-real-one", lambda: (cid, key, i, b_ph, b_m)):
                        return
                    higher = higher or (b_m > b_ph + 1e-12)
                    # a phantom CVR (not pooled) is a non-vote
                    phc = CVR(id=c.id, votes={cid: {}}, phantom=True)
                    am = 0.0 if (m.phantom or (us and not m.has_contest(cid))) else a.assorter.assort(m)
                    o = a.assorter.overstatement(m, phc, use_style=us)
                    if not out.expect(abs(o - (0.5 - am)) <= 1e-12, "phantom-cvr-not-scored-as-non-vote", lambda: (cid, key, i, o, am)):
                        return
                if con.audit_type == "ONEAUDIT" and pop:
                    # phantoms created as a batch of their own (make_phantoms(..., pool=True, tally_pool=label)): the batch holds
                    # nothing but non-votes, so each of its cards is still scored 1/2
                    batch = [CVR(id=f"phantom-b-{j}", votes={cid: {}}, phantom=True, pool=True, tally_pool="phantom batch") for j in range(2)]
                    a.assorter.set_tally_pool_means(cvr_list=cvrs + batch, use_style=us)
                    m = mvrs[pop[0]]
                    am = 0.0 if (m.phantom or (us and not m.has_contest(cid))) else a.assorter.assort(m)
                    o = a.assorter.overstatement(m, batch[0], use_style=us)
                    if not out.expect(abs(o - (0.5 - am)) <= 1e-12, "phantom-cvr-in-a-batch-of-phantoms-not-scored-as-non-vote", lambda: (cid, key, o, am)):
                        return
            except Exception as e:  # noqa
                out.lib_exception("overstatement", e)
                return
    out.nontrivial = higher
