"""C09  Audit completes only when every assertion of every contest meets its risk limit."""
import contextlib
import copy
import io
import math

from hypothesis import strategies as st

from strategies import audit as sa

ID = "C09"
TECHNIQUE = "Hypothesis-generated multi-contest audits: differential re-run of each assertion's configured test on its own data; iff-conjunction oracle for completion; reset check"
RULE = (
    "pipeline cases: 1-4 contests with different risk limits / audit types / social choice functions / tests, generated CVRs, "
    "MVRs, sample numbers and sizes, run through margins (from the CVRs, or from the reported tally where a contest can be tallied) -> consistent_sampling -> set_p_values -> summarize_status -> "
    "reset_p_values. direct cases: 1-4 contests whose assertions' tests are stubs returning generated p-values (including "
    "exactly the risk limit, 0, 1, values one ulp either side). Oracle: recorded (p, history) == copy of the configured test "
    "run on mvrs_to_data output; contest.max_p == max; returned value == overall max; complete == all(p <= own limit). "
    "Non-trivial = >=2 contests with different limits and a mix of confirmed and unconfirmed assertions (or a p-value exactly "
    "at its limit). distinct = canonical JSON."
)
ASSUMPTIONS = [
    "risk limits in (0, 1/2]; assertions are fresh (unconfirmed) before p-values are computed",
    "margins are positive for pipeline cases (others are skipped and counted)",
    "the configured test is the assertion's own NonnegMean object (deep-copied before set_p_values runs)",
]
LIMITS = [0.05, 0.1, 0.01, 0.25, 0.5, 0.001]


def shards(tier):
    n = 150 if tier == "quick" else 3000
    m = 2500 if tier == "quick" else 60000
    out = [{"name": f"pipeline-{at[:4]}-{i}", "mode": "pipe", "audit_types": at_, "examples": n}
           for at, at_ in (("POLLING", ("POLLING",)), ("COMP", ("CARD_COMPARISON",)), ("MIX", ("POLLING", "CARD_COMPARISON", "ONEAUDIT")))
           for i in (1, 2)]
    out += [{"name": f"direct-{i}", "mode": "direct", "examples": m} for i in (1, 2, 3, 4)]
    return out


def strategy(shard):
    if shard["mode"] == "pipe":
        @st.composite
        def pipe(draw):
            scn = draw(sa.scenario(n_contests=(1, 4), audit_types=shard["audit_types"], favour_winner=True, n_cards=(5, 40),
                                   mvr_modes=("copy",) * 12 + ("other", "phantom")))
            scn["plan"] = draw(sa.sampling_plan(scn))
            return {"mode": "pipe", "scn": scn}

        return pipe()

    @st.composite
    def direct(draw):
        ncon = draw(st.integers(1, 4))
        cons = {}
        for i in range(ncon):
            lim = draw(st.sampled_from(LIMITS))
            pv = st.one_of(st.sampled_from([lim, 0.0, 1.0, math.nextafter(lim, 0), math.nextafter(lim, 1), lim / 2]),
                           st.floats(0.0, 1.0), st.floats(0.0, lim))
            ps = draw(st.lists(pv, min_size=1, max_size=4))
            cons[f"K{i}"] = {"risk_limit": lim, "ps": ps, "ps2": [draw(pv) for _ in ps]}
        return {"mode": "direct", "contests": cons}

    return direct()


def _judge(out, contests, returned, done, feats, before=None, tag=""):
    """the relations of the statement, given the recorded p-values. `before` = confirmation status prior to this
    computation (an assertion once confirmed stays confirmed; everything else follows the current p-values)."""
    allp = []
    for cid, con in contests.items():
        ps = {k: float(a.p_value) for k, a in con.assertions.items()}
        allp += list(ps.values())
        out.expect(float(con.max_p) == max(ps.values()), tag + "contest-risk!=largest-p", lambda: (cid, con.max_p, ps))
        out.expect({k: float(v) for k, v in con.p_values.items()} == ps, tag + "contest.p_values", lambda: (cid, con.p_values, ps))
        for k, a in con.assertions.items():
            want = ps[k] <= con.risk_limit or bool(before and before.get((cid, k)))
            out.expect(bool(a.proved) == want and bool(con.proved[k]) == want, tag + "proved-flag", lambda: (cid, k, ps[k], con.risk_limit, a.proved))
            feats.add("confirmed" if want else "unconfirmed")
            if ps[k] == con.risk_limit:
                feats.add("p==limit")
    out.expect(float(returned) == max(allp), tag + "audit-risk!=largest-over-contests", lambda: (returned, max(allp)))
    want_done = all(float(a.p_value) <= con.risk_limit for con in contests.values() for a in con.assertions.values())
    out.expect(bool(done) == want_done, tag + "completion!=all-within-own-limit",
               lambda: (done, {c: (con.risk_limit, [float(a.p_value) for a in con.assertions.values()]) for c, con in contests.items()}))
    return want_done


def _reset(out, contests):
    from shangrla.core.Audit import Assertion

    from shangrla.core.Audit import Audit

    try:
        Assertion.reset_p_values(contests)
        with contextlib.redirect_stdout(io.StringIO()):
            done = Audit.summarize_status(None, contests)
    except Exception as e:  # noqa
        out.lib_exception("reset_p_values", e)
        return
    # after a reset every p-value is 1, above every admissible risk limit: nothing can be reported complete
    out.expect(done is False or done == False, "audit-complete-right-after-reset", lambda: done)  # noqa: E712
    for cid, con in contests.items():
        for k, a in con.assertions.items():
            out.expect(a.p_value == 1 and len(a.p_history) == 0 and a.proved is False, "reset-assertion", lambda: (cid, k, a.p_value, a.proved))
            out.expect(con.p_values.get(k) == 1 and con.proved.get(k) is False, "reset-contest-dicts", lambda: (cid, con.p_values, con.proved))
        out.expect(con.max_p == 1, "reset-contest-max", lambda: (cid, con.max_p))


def evaluate(case, out):
    import numpy as np
    from shangrla.core.Audit import Assertion, Audit, Contest, CVR
    from shangrla.core.NonnegMean import NonnegMean

    feats = set()
    if case["mode"] == "direct":
        specs = case["contests"]
        d = {cid: {"name": cid, "risk_limit": s["risk_limit"], "cards": 10, "choice_function": "PLURALITY", "n_winners": 1,
                   "candidates": ["W"] + [f"L{j}" for j in range(len(s["ps"]))], "winner": ["W"], "audit_type": "POLLING",
                   "test": NonnegMean.alpha_mart, "use_style": False, "test_kwargs": {}} for cid, s in specs.items()}
        contests = Contest.from_dict_of_dicts(d)
        audit = Audit.from_dict({"strata": {"s": {"max_cards": 10, "use_style": False}}})
        Assertion.make_all_assertions(contests)
        for cid, s in specs.items():
            con = contests[cid]
            for j, p in enumerate(s["ps"]):
                a = con.assertions[f"W v L{j}"]
                a.margin = 0.1
                a.test = NonnegMean(test=(lambda self, x, _p=p, **kw: (_p, np.array([1.0, _p / 2, _p]))), u=1, N=10, t=0.5)
        mv = [CVR(id="1", votes={c: {"W": 1} for c in specs}), CVR(id="2", votes={c: {"L0": 1} for c in specs})]
        try:
            with contextlib.redirect_stdout(io.StringIO()):
                ret = Assertion.set_p_values(contests, mv, None)
                done = audit.summarize_status(contests)
        except Exception as e:  # noqa
            out.lib_exception("set_p_values", e)
            return
        for cid, s in specs.items():
            for j, p in enumerate(s["ps"]):
                a = contests[cid].assertions[f"W v L{j}"]
                out.expect(float(a.p_value) == p and list(map(float, a.p_history)) == [1.0, p / 2, p], "recorded-p!=test-output", lambda: (cid, j, a.p_value, p))
        _judge(out, contests, ret, done, feats)
        # a second computation on other data, without a reset in between: the records must follow the new data
        before = {(cid, k): bool(a.proved) for cid, con in contests.items() for k, a in con.assertions.items()}
        for cid, s in specs.items():
            for j, p in enumerate(s["ps2"]):
                contests[cid].assertions[f"W v L{j}"].test = NonnegMean(test=(lambda self, x, _p=p, **kw: (_p, np.array([_p]))), u=1, N=10, t=0.5)
        try:
            with contextlib.redirect_stdout(io.StringIO()):
                ret2 = Assertion.set_p_values(contests, mv, None)
                done2 = audit.summarize_status(contests)
        except Exception as e:  # noqa
            out.lib_exception("set_p_values(second)", e)
            return
        for cid, s in specs.items():
            for j, p in enumerate(s["ps2"]):
                a = contests[cid].assertions[f"W v L{j}"]
                out.expect(float(a.p_value) == p and list(map(float, a.p_history)) == [p], "second:recorded-p!=test-output", lambda: (cid, j, a.p_value, p))
        _judge(out, contests, ret2, done2, set(), before=before, tag="second:")
        if any(before.values()):
            feats.add("second-round-after-confirmation")
        _reset(out, contests)
        lims = {s["risk_limit"] for s in specs.values()}
        out.cls("direct", *sorted(feats))
        out.nontrivial = (len(specs) >= 2 and len(lims) >= 2 and {"confirmed", "unconfirmed"} <= feats) or "p==limit" in feats
        return

    scn = case["scn"]
    us = scn["use_style"]
    try:
        audit, contests, cvrs, mvrs = sa.build(scn)
        for con in contests.values():
            if con.audit_type == "ONEAUDIT":
                for a in con.assertions.values():
                    a.assorter.set_tally_pool_means(cvr_list=cvrs, use_style=us)
        audit.check_audit_parameters(contests)
        # margins come from the CVRs, or - for contests that can be tallied - from the reported tally
        # (Contest.tally + find_margins_from_tally, the other documented way to set them)
        by_tally = {cid: con for cid, con in contests.items()
                    if len(cvrs) % 2 == 1 and scn["contests"][cid]["kind"] in ("plurality", "super")
                    and con.audit_type in ("CARD_COMPARISON", "POLLING")}
        if by_tally:
            Contest.tally(by_tally, cvrs)
            for con in by_tally.values():
                con.find_margins_from_tally()
            feats.add("margins-from-the-tally")
        others = {cid: con for cid, con in contests.items() if cid not in by_tally}
        if others:
            Assertion.set_all_margins_from_cvrs(audit, others, cvrs)
    except Exception as e:  # noqa
        out.lib_exception("setup", e)
        return
    for cid in [c for c in contests if not any(cv.has_contest(c) for cv in cvrs)]:
        del contests[cid]
    if not contests:
        out.skip("no-contest-on-any-card")
        return
    if not all(a.margin > 0 for con in contests.values() for a in con.assertions.values()):
        out.skip("nonpositive-margin")
        return
    for con in contests.values():
        for a in con.assertions.values():
            means = a.assorter.tally_pool_means or {}
            if any(c.pool and np.isnan(means.get(c.tally_pool, 0.0)) for c in cvrs):
                out.skip("nan-pool-mean")
                return
    sa.apply_plan(scn, scn["plan"], cvrs, contests)
    # an assertion's test may be declared not to be in random order (then its overall p-value is the last entry)
    for i, con in enumerate(contests.values()):
        for j, a in enumerate(con.assertions.values()):
            if (len(cvrs) + i + j) % 3 == 0:
                a.test.random_order = False
                feats.add("test-not-in-random-order")
    try:
        idx = CVR.consistent_sampling(cvrs, contests)
        cs, ms = [cvrs[i] for i in idx], [mvrs[i] for i in idx]
        if len(cvrs) % 5 == 0 and len(idx) >= 2 and not any(s["test"] == "kk" for s in scn["contests"].values()):
            # a sample may hold the same card more than once (drawing with replacement; the tests are then told that the
            # population is infinite): every draw is an observation
            rep = [0, len(idx) // 2, 0]
            cs, ms = cs + [cs[j] for j in rep], ms + [ms[j] for j in rep]
            for con in contests.values():
                for a in con.assertions.values():
                    a.test.N = np.inf
            feats.add("card-drawn-more-than-once")
        fresh = {(cid, k): copy.deepcopy(a.test) for cid, con in contests.items() for k, a in con.assertions.items()}
        with contextlib.redirect_stdout(io.StringIO()):
            ret = Assertion.set_p_values(contests, ms, cs)
            done = audit.summarize_status(contests)
    except Exception as e:  # noqa
        out.lib_exception("pipeline", e)
        return
    for cid, con in contests.items():
        out.cls(scn["contests"][cid]["kind"], con.audit_type, scn["contests"][cid]["test"])
        for k, a in con.assertions.items():
            try:
                if con.audit_type == "POLLING":
                    # a polling contest's data are the assorter's values on the manual records, whatever else is passed
                    # along for the comparison contests of the same audit
                    d, u = np.array([a.assorter.assort(m) for m in ms]), a.assorter.upper_bound
                else:
                    d, u = a.mvrs_to_data(ms, cs)
                t = fresh[(cid, k)]
                t.u = u
                p2, h2 = t.test(d)
            except Exception as e:  # noqa
                out.lib_exception("re-run", e)
                return
            same_p = float(a.p_value) == float(p2) or (math.isnan(float(a.p_value)) and math.isnan(float(p2)))
            out.expect(same_p, "recorded-p!=configured-test-on-own-data", lambda: (cid, k, a.p_value, p2))
            out.expect(len(a.p_history) == len(h2) and bool(np.array_equal(np.asarray(a.p_history, float), np.asarray(h2, float), equal_nan=True)),
                       "recorded-history!=configured-test-on-own-data", lambda: (cid, k, list(a.p_history)[:6], list(h2)[:6]))
    _judge(out, contests, ret, done, feats)
    # escalate to every card and compute again without a reset: records must be those of the new data
    before = {(cid, k): bool(a.proved) for cid, con in contests.items() for k, a in con.assertions.items()}
    try:
        for cid, con in contests.items():
            con.sample_size = sum(1 for c in cvrs if c.has_contest(cid))
        idx2 = CVR.consistent_sampling(cvrs, contests)
        cs2, ms2 = [cvrs[i] for i in idx2], [mvrs[i] for i in idx2]
        with contextlib.redirect_stdout(io.StringIO()):
            ret2 = Assertion.set_p_values(contests, ms2, cs2)
            done2 = audit.summarize_status(contests)
    except Exception as e:  # noqa
        out.lib_exception("pipeline(second)", e)
        return
    for cid, con in contests.items():
        for k, a in con.assertions.items():
            try:
                d, u = a.mvrs_to_data(ms2, cs2)
                t = fresh[(cid, k)]
                t.u = u
                p2, h2 = t.test(d)
            except Exception as e:  # noqa
                out.lib_exception("re-run(second)", e)
                return
            same_p = float(a.p_value) == float(p2) or (math.isnan(float(a.p_value)) and math.isnan(float(p2)))
            out.expect(same_p and len(a.p_history) == len(h2), "second:recorded-p!=configured-test-on-current-data",
                       lambda: (cid, k, a.p_value, p2, len(a.p_history), len(h2)))
    _judge(out, contests, ret2, done2, set(), before=before, tag="second:")
    if any(before.values()):
        feats.add("second-round-after-confirmation")
    # a later computation on a sample that holds no card of one contest: nothing can have been learned about it, so either the
    # library refuses (the tests do not take empty samples) or that contest's records say exactly that: p = 1, no history
    if us:
        target = next((cid for cid, con in contests.items() if con.audit_type != "POLLING"
                       and any(not c.has_contest(cid) for c in cvrs) and any(c.has_contest(cid) for c in cvrs)), None)
        if target is not None:
            keep = [i for i, c in enumerate(cvrs) if not c.has_contest(target)]
            cs3, ms3 = [cvrs[i] for i in keep], [mvrs[i] for i in keep]
            try:
                with contextlib.redirect_stdout(io.StringIO()):
                    Assertion.set_p_values({target: contests[target]}, ms3, cs3)
                refused = False
            except Exception:  # noqa
                refused = True
            if refused:
                out.cls("empty-sample-refused")
            else:
                out.cls("empty-sample-accepted")
                con = contests[target]
                for k, a in con.assertions.items():
                    out.expect(float(a.p_value) == 1.0 and len(a.p_history) == 0, "empty-sample:records-not-those-of-an-empty-sample",
                               lambda: (target, k, a.p_value, len(a.p_history)))
                out.expect(float(con.max_p) == 1.0, "empty-sample:contest-risk!=1", lambda: (target, con.max_p))
    _reset(out, contests)
    lims = {con.risk_limit for con in contests.values()}
    out.cls("pipeline", *sorted(feats))
    out.nontrivial = len(contests) >= 2 and len(lims) >= 2 and {"confirmed", "unconfirmed"} <= feats
