"""C19  Dominion import reflects counted marks, adjudication and grouping faithfully."""
import copy
import json
import os
import shutil
import tempfile

from hypothesis import strategies as st

ID = "C19"
TECHNIQUE = "grammar-based generation of Dominion JSON exports; differential test against a reference reader written from the statement; metamorphic permutations of marks / keys / Original-Modified order"
RULE = (
    "case = export with 0..6 sessions (both layouts: Contests directly or under Cards), 0..3 cards x 0..3 contests per record, "
    "0..5 marks per contest with repeated candidates, ranks 0..4, IsVote flags and IsAmbiguous flags (a mark the scanner flagged and adjudication counted, or did not: what counts is IsVote), optional Modified block covering a subset "
    "of contests, session key order shuffled (so Modified may precede Original), plain or obfuscated record ids, counting "
    "groups 0..3 (a group number is a number like any other, 0 included); options use_current / enforce_rules / include_groups / pool_groups generated. Oracle: reference reader; the "
    "same export with marks permuted, keys permuted and Original/Modified swapped must give the same result. Non-trivial = a "
    "candidate with >=2 counted marks of different rank, or an uncounted mark, or a Modified block, or an excluded group. "
    "distinct = canonical JSON."
)
ASSUMPTIONS = [
    "ranks are non-negative integers, IsVote is a bool; a contest id occurs at most once within one version (Original or Modified) of a record",
    "a candidate all of whose counted marks have rank 0 is recorded with a falsy value (no positive rank exists)",
    "record ids are integers or the obfuscation marker 'X' with an ImageMask of the vendor's shape",
]


def shards(tier):
    n = 400 if tier == "quick" else 10000
    return [{"name": f"{lay}-{i}", "layout": lay, "examples": n} for lay in ("cards", "flat", "mixed") for i in (1, 2)] + \
           [{"name": "directory", "layout": "mixed", "directory": True, "examples": n // 4}]


@st.composite
def _marks(draw):
    n = draw(st.integers(0, 5))
    cands = draw(st.lists(st.integers(1, 4), min_size=n, max_size=n))
    return [{"CandidateId": c, "PartyId": 0, "Rank": draw(st.sampled_from([1, 1, 2, 3, 4, 0])), "MarkDensity": 90,
             "IsAmbiguous": draw(st.sampled_from([False, False, False, True])), "IsVote": draw(st.sampled_from([True, True, True, False]))} for c in cands]


@st.composite
def _version(draw, layout, contest_ids):
    cons = [{"Id": cid, "Marks": draw(_marks())} for cid in contest_ids]
    lay = layout if layout != "mixed" else draw(st.sampled_from(["cards", "flat"]))
    v = {"PrecinctPortionId": 1, "BallotTypeId": 2, "IsCurrent": True}
    if lay == "flat":
        v["Contests"] = cons
    else:
        ncards = draw(st.integers(1, 3))
        cards = [{"Id": 100 + i, "PaperIndex": i, "Contests": []} for i in range(ncards)]
        for c in cons:
            cards[draw(st.integers(0, ncards - 1))]["Contests"].append(c)
        v["Cards"] = cards
    return v


@st.composite
def _session(draw, layout, idx):
    tab, batch = draw(st.integers(1, 3)), draw(st.integers(1, 3))
    obf = draw(st.integers(0, 4)) == 0
    rec = (idx + 1) * draw(st.sampled_from([1, 1, 1, 10, 100]))   # record numbers such as 10, 20, 300 occur too
    s = {"TabulatorId": tab, "BatchId": batch, "RecordId": "X" if obf else rec, "CountingGroupId": draw(st.integers(0, 3)),
         "ImageMask": f"D:\\\\NAS\\\\Results\\\\Tabulator{tab:05d}\\\\Batch{batch:03d}\\\\Images\\\\{tab:05d}_{batch:05d}_{rec:06d}*.*",
         "SessionType": "ScannedVote"}
    cids = draw(st.lists(st.integers(1, 4), max_size=3, unique=True))
    s["Original"] = draw(_version(layout, cids))
    if draw(st.integers(0, 2)) == 0:
        mids = draw(st.lists(st.sampled_from(cids + [5]), max_size=3, unique=True)) if cids else [5]
        s["Modified"] = draw(_version(layout, mids))
        s["Original"]["IsCurrent"] = False
    keys = list(draw(st.permutations(list(s.keys()))))
    return {"keys": keys, "session": s, "rec": rec}


def strategy(shard):
    @st.composite
    def case(draw):
        n = draw(st.integers(0, 6))
        sessions = [draw(_session(shard["layout"], i)) for i in range(n)]
        opts = {"use_current": draw(st.sampled_from([True, True, False])), "enforce_rules": draw(st.sampled_from([True, True, False])),
                "include_groups": sorted(draw(st.sets(st.integers(0, 3), max_size=2))), "pool_groups": sorted(draw(st.sets(st.integers(0, 3), max_size=2)))}
        c = {"sessions": sessions, "opts": opts, "directory": bool(shard.get("directory"))}
        if c["directory"]:
            c["split"] = draw(st.integers(0, n))
        return c

    return case()


def _ordered(sess):
    return {k: sess["session"][k] for k in sess["keys"]}


def reference(case):
    """the records the statement prescribes: list of (id, tally_pool, pool, votes)."""
    o = case["opts"]
    out = []
    feats = set()
    for sess in case["sessions"]:
        s = sess["session"]
        if o["include_groups"] and s["CountingGroupId"] not in o["include_groups"]:
            feats.add("group-excluded")
            continue
        votes = {}
        versions = ["Original"] + (["Modified"] if (o["use_current"] and "Modified" in s) else [])
        if "Modified" in s:
            feats.add("modified-block")
        for vname in versions:
            v = s[vname]
            cons = v["Contests"] if "Contests" in v else [c for card in v["Cards"] for c in card["Contests"]]
            for con in cons:
                cv = {}
                per = {}
                for m in con["Marks"]:
                    if m["IsVote"] or not o["enforce_rules"]:
                        per.setdefault(str(m["CandidateId"]), []).append(int(m["Rank"]))
                    else:
                        feats.add("uncounted-mark")
                for cand, ranks in per.items():
                    pos = [r for r in ranks if r > 0]
                    cv[cand] = min(pos) if pos else 0
                    if len(set(ranks)) >= 2:
                        feats.add("candidate-with-several-ranks")
                votes[str(con["Id"])] = cv
        rid = sess["rec"]  # the obfuscated id is recoverable from the image mask
        out.append((f"{s['TabulatorId']}-{s['BatchId']}-{rid}", f"{s['TabulatorId']}-{s['BatchId']}", s["CountingGroupId"] in o["pool_groups"], votes))
    return out, feats


def _coll(groups, opts, salt=0):
    """the same group numbers as a list, a tuple, a set or a frozenset (the parameters are documented as 'enumerable', e.g. (2,))"""
    k = (len(opts["include_groups"]) + 2 * len(opts["pool_groups"]) + int(opts["use_current"]) + salt) % 4
    return [list, tuple, set, frozenset][k](groups)


def _read(case, sessions_docs):
    from harness.boot import VERIF
    from shangrla.formats.Dominion import Dominion

    o = case["opts"]
    os.makedirs(os.path.join(VERIF, ".work"), exist_ok=True)
    d = tempfile.mkdtemp(prefix="c19_", dir=os.path.join(VERIF, ".work"))
    try:
        if case["directory"]:
            k = case["split"]
            for name, part in (("CvrExport_1.json", sessions_docs[:k]), ("CvrExport_2.json", sessions_docs[k:]), ("other.json", sessions_docs)):
                with open(os.path.join(d, name), "w") as fh:
                    json.dump({"Version": "5.10.50.85", "ElectionId": "gen", "Sessions": part}, fh)
            res = Dominion.read_cvrs_directory(d, use_current=o["use_current"], enforce_rules=o["enforce_rules"],
                                               include_groups=_coll(o["include_groups"], o), pool_groups=_coll(o["pool_groups"], o, 1))
        else:
            p = os.path.join(d, "export.json")
            with open(p, "w") as fh:
                json.dump({"Version": "5.10.50.85", "ElectionId": "gen", "Sessions": sessions_docs}, fh)
            res = Dominion.read_cvrs(p, use_current=o["use_current"], enforce_rules=o["enforce_rules"],
                                     include_groups=_coll(o["include_groups"], o), pool_groups=_coll(o["pool_groups"], o, 1))
    finally:
        shutil.rmtree(d, ignore_errors=True)
    return [(c.id, c.tally_pool, c.pool, {k: {a: (int(b) if not isinstance(b, bool) else b) for a, b in v.items()} for k, v in c.votes.items()}) for c in res]


def evaluate(case, out):
    want, feats = reference(case)
    out.cls("directory" if case["directory"] else "single-file", *sorted(feats))
    docs = [_ordered(s) for s in case["sessions"]]
    try:
        got = _read(case, docs)
    except Exception as e:  # noqa
        out.lib_exception("read_cvrs", e)
        return
    if not out.expect([g[0] for g in got] == [w[0] for w in want], "records-or-order", lambda: ([g[0] for g in got], [w[0] for w in want])):
        return
    for g, w in zip(got, want):
        out.expect(g[1] == w[1], "tally_pool", lambda: (g[0], g[1], w[1]))
        out.expect(g[2] is w[2] or g[2] == w[2], "pooled-flag", lambda: (g[0], g[2], w[2]))
        if not out.expect(g[3] == w[3], "votes", lambda: {"id": g[0], "got": g[3], "want": w[3], "opts": case["opts"]}):
            return
    # metamorphic variants: same content, different order
    def variant(kind):
        ds = []
        for s in case["sessions"]:
            sess = copy.deepcopy(s["session"])
            keys = list(s["keys"])
            if kind == "marks-reversed":
                for vn in ("Original", "Modified"):
                    if vn in sess:
                        v = sess[vn]
                        for con in (v["Contests"] if "Contests" in v else [c for card in v["Cards"] for c in card["Contests"]]):
                            con["Marks"] = list(reversed(con["Marks"]))
            elif kind == "keys-reversed":
                keys = list(reversed(keys))
            elif kind == "modified-first":
                keys = [k for k in keys if k not in ("Original", "Modified")]
                keys = (["Modified"] if "Modified" in sess else []) + ["Original"] + keys
            elif kind == "original-first":
                keys = [k for k in keys if k not in ("Original", "Modified")]
                keys = ["Original"] + (["Modified"] if "Modified" in sess else []) + keys
            ds.append({k: sess[k] for k in keys})
        return ds

    for kind in ("marks-reversed", "keys-reversed", "modified-first", "original-first"):
        try:
            g2 = _read(case, variant(kind))
        except Exception as e:  # noqa
            out.lib_exception(f"read_cvrs({kind})", e)
            return
        if not out.expect(g2 == got, f"result-depends-on-order:{kind}", lambda: {"first-difference": next(((a, b) for a, b in zip(g2, got) if a != b), None)}):
            return
    out.nontrivial = bool(feats) and len(want) > 0
