"""C20  Elimination tree shows an unpruned leaf iff the assertions are insufficient."""
import contextlib
import io
import itertools

from hypothesis import strategies as st

from oracles import irv_ref as ir

ID = "C20"
TECHNIQUE = "Hypothesis-generated assertion sets; brute force over all (n-1)! elimination orders and a definition-level reference for every node's tags"
RULE = (
    "case = candidate set (2..5, thorough 6), reported winner, alternative winner (tree root), a list of distinct NEB "
    "(winner, loser) and NEN (candidate, eliminated set leaving at least one other candidate) assertions with proved flags: "
    "random, built from a random order to be sufficient / nearly sufficient, redundant, mutually inconsistent; half of the "
    "cases are passed through parseAssertions in audit-log JSON form first. Oracle: tree has an unpruned leaf <=> some order "
    "ending in the root is contradicted by no assertion; every pruned node's tags == the assertions applying there by "
    "definition and each contradicts every completion through the node. Non-trivial = >=3 candidates, >=2 assertions and "
    "a tree with at least one pruned node below the root. distinct = canonical JSON."
)
ASSUMPTIONS = [
    "assertion tuples are distinct (the implementation numbers them by list position)",
    "NEN eliminated sets contain neither the assertion's candidate nor all other candidates",
]
CANDS = ["1", "2", "3", "4", "5", "6"]
CANDS_MULTI = ["1", "12", "11", "2", "21", "112"]   # identifiers of different lengths sharing prefixes (real ids are like this)


def shards(tier):
    q = tier == "quick"
    out = [{"name": f"n{n}-{i}", "n": n, "examples": 600 if q else 12000} for n in (2, 3, 4, 5) for i in (1, 2)]
    if not q:
        out += [{"name": f"n6-{i}", "n": 6, "examples": 1500} for i in (1, 2)]
    return out


def strategy(shard):
    n = shard["n"]

    @st.composite
    def case(draw):
        cands = (CANDS_MULTI if draw(st.booleans()) else CANDS)[:n]
        hyphen = draw(st.integers(0, 5)) == 0
        if hyphen:
            # names with a hyphen in them ('Smith-Jones' and 'Smith' are two people)
            cands = ["S", "S-J", "J-B", "B", "J", "S-J-B"][:n]
        winner = draw(st.sampled_from(cands))
        root = draw(st.sampled_from([c for c in cands if c != winner]))
        mode = draw(st.sampled_from(["random", "from-order", "from-order", "dense"]))
        neb, nen = [], []

        def add_neb():
            w, l = draw(st.lists(st.sampled_from(cands), min_size=2, max_size=2, unique=True))
            neb.append([l, w, draw(st.booleans())])

        def add_nen():
            c = draw(st.sampled_from(cands))
            others = [x for x in cands if x != c]
            if len(others) < 1:
                return
            E = draw(st.lists(st.sampled_from(others), max_size=len(others) - 1, unique=True))
            nen.append([c, sorted(E), draw(st.booleans())])

        if mode == "random":
            for _ in range(draw(st.integers(0, 6))):
                add_neb() if draw(st.booleans()) else add_nen()
        elif mode == "dense":
            for _ in range(draw(st.integers(4, 14))):
                add_neb() if draw(st.booleans()) else add_nen()
        else:
            # assertions true of one hidden order (winner last): NEB(w,l) with l before w, NEN(c,E) with E != prefix before c
            order = [c for c in draw(st.permutations(cands)) if c != winner] + [winner]
            for _ in range(draw(st.integers(1, 10))):
                if draw(st.booleans()):
                    i, j = sorted(draw(st.lists(st.integers(0, n - 1), min_size=2, max_size=2, unique=True)))
                    neb.append([order[i], order[j], draw(st.booleans())])  # order[j] NEB order[i]
                else:
                    k = draw(st.integers(0, n - 1))
                    c = order[k]
                    others = [x for x in cands if x != c]
                    E = draw(st.lists(st.sampled_from(others), max_size=len(others) - 1, unique=True))
                    if set(E) != set(order[:k]) or k == n - 1:
                        nen.append([c, sorted(E), draw(st.booleans())])
        # distinct tuples
        # distinct tuples; the same statement may be listed twice with different confirmation flags (both tags are due)
        seen, neb2, nen2 = set(), [], []
        for a in neb:
            if (a[0], a[1], a[2]) not in seen:
                seen.add((a[0], a[1], a[2]))
                neb2.append(a)
        for a in nen:
            k = (a[0], tuple(a[1]), a[2])
            if k not in seen:
                seen.add(k)
                nen2.append(a)
        if nen2 and draw(st.integers(0, 3)) == 0:
            a = draw(st.sampled_from(nen2))
            twin = [a[0], list(a[1]), not a[2]]
            if (twin[0], tuple(twin[1]), twin[2]) not in seen:
                nen2.append(twin)
        # (the audit log keys assertions by their label, so it cannot hold the same statement twice: such lists are
        # passed to the tree builder directly)
        labels = [(a[0], a[1]) for a in neb2] + [(a[0], tuple(a[1])) for a in nen2]
        via_json = draw(st.booleans()) and len(set(labels)) == len(labels) and not hyphen   # (the candidate manifest has numeric ids)
        return {"cands": cands, "winner": winner, "root": root, "neb": neb2, "nen": nen2, "via_json": via_json}

    return case()


def _canon(t):
    """svgling tuple with children sorted (sets have no order)."""
    if isinstance(t, tuple) and len(t) >= 1 and all(isinstance(c, tuple) for c in t[1:]) and len(t) > 1:
        return (t[0],) + tuple(sorted((_canon(c) for c in t[1:]), key=repr))
    return t


def evaluate(case, out):
    from shangrla.core import IRVVisualisationUtils as viz

    cands, root = case["cands"], case["root"]
    neb = [(a[0], a[1], bool(a[2])) for a in case["neb"]]           # (loser, winner, proved)
    nen = [(a[0], set(a[1]), bool(a[2])) for a in case["nen"]]      # (candidate, eliminated, proved)
    out.cls(f"n={len(cands)}", "via-json" if case["via_json"] else "direct")
    WO, IRV = neb, nen
    if case["via_json"]:
        js, asr = [], {}
        for i, (l, w, p) in enumerate(neb):
            # "nobody eliminated" is written "" by the RAIRE exporter; an empty list says the same and is what other
            # writers of the format (and a JSON round trip through typed tools) produce
            js.append({"winner": w, "loser": l, "assertion_type": "WINNER_ONLY", "already_eliminated": "" if (i + len(cands)) % 3 else []})
            asr[f"{w} v {l}"] = {"winner": w, "loser": l, "proved": p}
        for (c, E, p) in nen:
            # (the eliminated candidates are a set written as a list: in any order, and a writer may name one twice)
            el = sorted(E)
            if len(el) % 2 == 1 and (len(el) + len(cands)) % 3 == 0:
                el = el[::-1] + [el[0]]
            js.append({"winner": c, "loser": "?", "assertion_type": "IRV_ELIMINATION", "already_eliminated": el})
            asr[f"{c} v ? elim {' '.join(sorted(E))}"] = {"winner": c, "loser": "?", "proved": p}
        target = {"choice_function": "IRV", "n_winners": 1, "winner": [case["winner"]],
                  "candidates": list(cands), "assertions": asr, "assertion_json": js}
        if not nen and neb and len(neb) % 2 == 1:
            del target["assertion_json"]   # a log written for a non-IRV style audit: winner/loser come from the assertions
            out.cls("log-without-assertion_json")
        contests_in_log = {"339": target}
        explicit = len(js) % 2 == 0
        if len(cands) >= 3:
            # other contests in the same log, listed after the visualised one, with assertions of their own
            decoy_js = [{"winner": cands[1], "loser": cands[0], "assertion_type": "WINNER_ONLY", "already_eliminated": ""},
                        {"winner": cands[2], "loser": "?", "assertion_type": "IRV_ELIMINATION", "already_eliminated": [cands[0]]}]
            decoy = {"choice_function": "IRV", "n_winners": 1, "winner": [cands[1]], "candidates": list(cands),
                     "assertions": {"d1": {"winner": cands[1], "loser": cands[0], "proved": True}, "d2": {"winner": cands[2], "loser": "?", "proved": True}},
                     "assertion_json": decoy_js}
            contests_in_log["340"] = decoy
            contests_in_log["1000"] = dict(decoy, assertion_json=list(reversed(decoy_js)))
            out.cls("several-contests-in-log")
        import json as _json

        auditfile = _json.loads(_json.dumps({"Audit": {"seed": 1}, "contests": contests_in_log}))   # as read from the log file
        # the candidate manifest may not list every candidate of the contest (a write-in, a manifest exported for other
        # contests): such a candidate is still a candidate, its name is reported as ''
        unlisted = [c for k, c in enumerate(cands) if c != case["winner"] and (k + len(js)) % 4 == 0] if len(cands) >= 3 else []
        candfile = {"List": [{"Id": int(c), "Description": f"cand {c}"} for c in cands if c not in unlisted]}
        if unlisted:
            out.cls("candidate-missing-from-the-manifest")
        try:
            with contextlib.redirect_stdout(io.StringIO()):
                if explicit:
                    (aw, awn), nonw, WO, IRV = viz.parseAssertions(auditfile, candfile, contest_id="339")
                else:  # default: the contest with the smallest identifier
                    (aw, awn), nonw, WO, IRV = viz.parseAssertions(auditfile, candfile)
        except Exception as e:  # noqa
            out.lib_exception("parseAssertions", e)
            return
        out.expect(aw == case["winner"] and awn == f"cand {case['winner']}", "parse:winner", lambda: (aw, awn))
        out.expect([x[0] for x in nonw] == [c for c in cands if c != case["winner"]], "parse:non-winners", lambda: nonw)
        if not out.expect(list(WO) == neb and [(a, set(b), c) for a, b, c in IRV] == nen, "parse:pruning-tuples",
                          lambda: {"WO": WO, "IRV": IRV, "want": (neb, nen)}):
            return
    S0 = set(c for c in cands if c != root)
    S_own = set(S0)
    if (len(cands) + len(neb)) % 2 == 0:
        # an earlier stage of the same report, run with warnings promoted to errors (python -W error): the tree before any
        # assertion is known (every leaf unpruned), on the caller's own set of remaining candidates; if the library warns
        # about the unpruned leaves the stage stops there. The caller then builds the real tree with that same set object
        import warnings

        with warnings.catch_warnings():
            warnings.simplefilter("error")
            try:
                with contextlib.redirect_stdout(io.StringIO()):
                    viz.buildRemainingTreeAsLists(root, S_own, [], [])
            except Warning:
                pass
        out.cls("same-set-object-after-an-earlier-stage-under--W-error")
    WO_own, IRV_own = list(WO), list(IRV)
    if (len(cands) + len(nen)) % 2 == 1 and (WO_own or IRV_own):
        # the caller keeps its two lists of assertions and built a first tree when the last assertion was not yet known;
        # the assertion was then appended to the same list object, which is used for the real tree
        late_list = IRV_own if IRV_own else WO_own
        late = late_list.pop()
        try:
            with contextlib.redirect_stdout(io.StringIO()):
                viz.buildRemainingTreeAsLists(root, set(S0), WO_own, IRV_own)
        except Exception as e:  # noqa
            out.lib_exception("buildRemainingTreeAsLists(earlier stage)", e)
            return
        late_list.append(late)
        out.cls("assertion-appended-to-the-same-list-after-a-first-tree")
    try:
        with contextlib.redirect_stdout(io.StringIO()):
            tree = viz.buildRemainingTreeAsLists(root, S_own, WO_own, IRV_own)
    except Exception as e:  # noqa
        out.lib_exception("buildRemainingTreeAsLists", e)
        return

    ref_neb = [("NEB", w, l, frozenset()) for (l, w, p) in neb]
    ref_nen = [("NEN", c, None, frozenset(E)) for (c, E, p) in nen]
    stats = {"unpruned": 0, "pruned": 0}

    def walk(t, c, S, above):
        """t: subtree for candidate c with S still to be placed; above: candidates eliminated after c (root first)."""
        want_neb = [(i, p) for i, (l, w, p) in enumerate(neb) if l == c and w in S]
        want_nen = [(i, p) for i, (x, E, p) in enumerate(nen) if x == c and E == S]
        if want_neb or want_nen:
            if not out.expect(isinstance(t, list) and len(t) == 1 and isinstance(t[0], viz.LeafNode), "node-should-be-pruned", lambda: (c, sorted(S), repr(t)[:120])):
                return False
            leaf = t[0]
            ok = out.expect(leaf.cand == c and list(leaf.NEBTagList) == want_neb and list(leaf.IRVTagList) == want_nen, "pruned-node-tags",
                            lambda: {"node": (c, sorted(S)), "got": (list(leaf.NEBTagList), list(leaf.IRVTagList)), "want": (want_neb, want_nen)})
            stats["pruned"] += 1 if above else 0
            # every tagged assertion contradicts every completion through this node
            tail = [c] + list(reversed(above))
            for perm in itertools.permutations(sorted(S)):
                o = list(perm) + tail
                for i, _ in want_neb:
                    ok = ok and out.expect(ir.contradicts(ref_neb[i], o), "tagged-NEB-does-not-contradict-a-completion", lambda: (ref_neb[i], o))
                for i, _ in want_nen:
                    ok = ok and out.expect(ir.contradicts(ref_nen[i], o), "tagged-NEN-does-not-contradict-a-completion", lambda: (ref_nen[i], o))
                if not ok:
                    return False
            return ok
        if not S:
            stats["unpruned"] += 1
            return out.expect(isinstance(t, list) and len(t) == 1 and isinstance(t[0], viz.LeafNode) and t[0].cand == c
                              and not t[0].NEBTagList and not t[0].IRVTagList, "unpruned-leaf-shape", lambda: repr(t)[:120])
        if not out.expect(isinstance(t, list) and len(t) == 2 and t[0] == c and isinstance(t[1], list) and len(t[1]) == len(S),
                          "internal-node-shape", lambda: (c, sorted(S), repr(t)[:160])):
            return False
        kids = {}
        for sub in t[1]:
            k = sub[0].cand if (len(sub) == 1 and isinstance(sub[0], viz.LeafNode)) else sub[0]
            kids[k] = sub
        if not out.expect(set(kids) == S, "children!=remaining-candidates", lambda: (sorted(kids), sorted(S))):
            return False
        for c2 in sorted(S):
            if not walk(kids[c2], c2, S - {c2}, above + [c]):
                return False
        return True

    if not walk(tree, root, set(S0), []):
        return
    try:
        with contextlib.redirect_stdout(io.StringIO()):
            tree2 = viz.buildRemainingTreeAsLists(root, set(S0), list(WO), list(IRV))
            t1, t2 = viz.treeListToTuple(tree), viz.treeListToTuple(tree2)
    except Exception as e:  # noqa
        out.lib_exception("second-build", e)
        return
    out.expect(repr(_canon(t1)) == repr(_canon(t2)), "tree-differs-between-two-builds-from-the-same-arguments", lambda: (repr(t1)[:120], repr(t2)[:120]))
    # brute force over all orders ending in the root
    uncontradicted = 0
    allasn = ref_neb + ref_nen
    orders = 0
    for perm in itertools.permutations(sorted(S0)):
        o = list(perm) + [root]
        orders += 1
        if not any(ir.contradicts(a, o) for a in allasn):
            uncontradicted += 1
    out.enumerated = orders
    out.expect((stats["unpruned"] > 0) == (uncontradicted > 0), "unpruned-leaf<=>insufficient",
               lambda: {"unpruned_leaves": stats["unpruned"], "uncontradicted_orders": uncontradicted})
    out.expect(stats["unpruned"] == uncontradicted, "unpruned-leaves!=uncontradicted-orders", lambda: (stats["unpruned"], uncontradicted))
    try:
        with contextlib.redirect_stdout(io.StringIO()):
            tup = viz.treeListToTuple(tree)
    except Exception as e:  # noqa
        out.lib_exception("treeListToTuple", e)
        return
    out.expect(("Unpruned leaf" in repr(tup)) == (uncontradicted > 0), "marker-string<=>insufficient", lambda: repr(tup)[:200])
    out.cls("insufficient" if uncontradicted else "sufficient")
    out.nontrivial = len(cands) >= 3 and len(allasn) >= 2 and stats["pruned"] >= 1
