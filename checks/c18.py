"""C18  Merging records for one card loses nothing and keeps its flags meaningful;
the RAIRE ballot-format reader.  Oracle: ordered-dict reference model (DESIGN 4, C18)."""
import copy
import csv
import os
import shutil
import tempfile
from collections import OrderedDict

from hypothesis import strategies as st

ID = "C18"
TECHNIQUE = "Hypothesis-generated record lists / RAIRE inputs vs. an ordered-dict reference model"
RULE = (
    "merge cases: lists of 0..12 records over <=4 identifiers, <=3 contests, every combination of "
    "phantom/pool/tally_pool; raire cases: generated header + ballot rows for 1..3 contests (in memory "
    "or through a file). Non-trivial = some identifier occurs >=2 times AND (two of its records share a "
    "contest OR its phantom/pool/tally_pool values are not all equal); for raire cases = a ballot id "
    "occurring in >=2 contests or twice in one contest. distinct = distinct canonical JSON of the case."
)
ASSUMPTIONS = [
    "record flags are Python bools; tally_pool is None (not set) or a label (string or integer, possibly falsy: 0, '')",
    "RAIRE rankings are lists of declared candidates in preference order; a candidate named again further down keeps its first position",
    "the count returned next to the merged list by from_raire is not part of the property and is not judged",
]

IDS = ["b1", "b2", "b3", "7", 7]   # (7 and "7" are two cards)
CONTESTS = ["m", "da", "x"]
CANDS = ["A", "B", "C", "D"]


def shards(tier):
    n = 1 if tier == "quick" else 30
    return [
        {"name": "merge-a", "kind": "merge", "examples": 1500 * n},
        {"name": "merge-b", "kind": "merge", "examples": 1500 * n},
        {"name": "merge-conflict", "kind": "merge", "conflict_bias": True, "examples": 1000 * n},
        {"name": "raire-mem", "kind": "raire", "file": False, "examples": 1000 * n},
        {"name": "raire-file", "kind": "raire", "file": True, "examples": 300 * n},
        # thousands of rows (the generated rows repeated; every card's rows lie thousands of rows apart): few cases
        {"name": "raire-mem-big", "kind": "raire", "file": False, "examples": 4 * n, "big": True},
    ]


def _votes():
    mark = st.sampled_from([True, False, 1, 0, 2, 3, "", "x"])
    contest = st.dictionaries(st.sampled_from(CANDS), mark, max_size=3)
    return st.dictionaries(st.sampled_from(CONTESTS), contest, max_size=3)


def strategy(shard):
    if shard["kind"] == "merge":
        # batch labels are arbitrary objects; 0 and '' are labels, only None means "not set"
        tp = st.sampled_from([None, None, "p1", "p1", "p2", 0, "", "batch-1000"] if not shard.get("conflict_bias") else [None, "p1", "p2", 0, ""])
        rec = st.fixed_dictionaries(
            {"id": st.sampled_from(IDS), "votes": _votes(), "phantom": st.booleans(), "pool": st.booleans(), "tally_pool": tp,
             # how the caller holds the votes: its own dict, one template dict shared by all such records (votes ignored,
             # the template is used), or no votes argument at all (the constructor's default)
             "holds": st.sampled_from(["own", "own", "own", "own", "template", "default"])}
        )
        return st.fixed_dictionaries({"kind": st.just("merge"), "records": st.lists(rec, max_size=12), "template": _votes()})

    @st.composite
    def raire(draw):
        k = draw(st.integers(1, 3))
        contests = []
        for i in range(k):
            # candidate numbers as strings, or - in rows the caller parsed itself - as integers (0 is a candidate number too)
            pool = ["1", "2", "3", "4", "15", "16"] if (shard["file"] or draw(st.integers(0, 3))) else [0, 1, 2, 3, 15]
            cands = draw(st.lists(st.sampled_from(pool), min_size=1, max_size=5, unique=True))
            contests.append({"id": str(330 + i), "cands": cands})
        ballots = []
        nb = draw(st.integers(0, 10))
        for _ in range(nb):
            c = draw(st.sampled_from(contests))
            bid = draw(st.sampled_from(["99813_1_1", "99813_1_3", "5_2_2", "x"]))
            ranking = draw(st.lists(st.sampled_from(c["cands"]), max_size=len(c["cands"]), unique=True))
            if ranking and draw(st.integers(0, 6)) == 0:
                j = draw(st.integers(0, len(ranking) - 1))     # the same candidate ranked again further down
                ranking = ranking[: j + 1] + [draw(st.sampled_from(ranking[: j + 1]))] + ranking[j + 1:]
            ballots.append([c["id"], bid, ranking])
        return {"kind": "raire", "contests": contests, "ballots": ballots, "file": shard["file"],
                "size": (draw(st.sampled_from([8300, 9000, 12500, 17000])) if (shard.get("big") and ballots) else None),
                "phantom": draw(st.booleans()) if not shard["file"] else False}

    return raire()


def _votes_of(r, case):
    h = r.get("holds", "own")
    return {} if h == "default" else (case.get("template", {}) if h == "template" else r["votes"])


def _fresh(label):
    """an equal but distinct object (labels read from files are never the same object twice)"""
    if isinstance(label, str) and len(label) >= 2:
        return "".join(list(label))
    return label


def _mk(CVR, r, template):
    r = dict(r, tally_pool=_fresh(r["tally_pool"]))
    h = r.get("holds", "own")
    if h == "default":
        return CVR(id=r["id"], phantom=r["phantom"], pool=r["pool"], tally_pool=r["tally_pool"])
    votes = template if h == "template" else copy.deepcopy(r["votes"])
    return CVR(id=r["id"], votes=votes, phantom=r["phantom"], pool=r["pool"], tally_pool=r["tally_pool"])


def evaluate(case, out):
    from shangrla.core.Audit import CVR

    if case["kind"] == "merge":
        recs = case["records"]
        model = OrderedDict()
        for r in recs:
            rv = _votes_of(r, case)
            if r["id"] not in model:
                model[r["id"]] = {"votes": copy.deepcopy(rv), "ph": [r["phantom"]], "pool": [r["pool"]], "tp": [r["tally_pool"]]}
            else:
                m = model[r["id"]]
                m["votes"].update(copy.deepcopy(rv))
                m["ph"].append(r["phantom"]); m["pool"].append(r["pool"]); m["tp"].append(r["tally_pool"])
        conflict = any(len({t for t in m["tp"] if t is not None}) > 1 for m in model.values())
        # non-triviality
        by_id = {}
        for r in recs:
            by_id.setdefault(r["id"], []).append(r)
        for rs in by_id.values():
            if len(rs) >= 2:
                out.cls("repeated-id")
                shared = any(set(_votes_of(a, case)) & set(_votes_of(b, case)) for i, a in enumerate(rs) for b in rs[i + 1:])
                mixed = any(len({repr(r[k]) for r in rs}) > 1 for k in ("phantom", "pool", "tally_pool"))
                if shared:
                    out.cls("shared-contest")
                if mixed:
                    out.cls("mixed-flags")
                if shared or mixed:
                    out.nontrivial = True
        if conflict:
            out.cls("tally-pool-conflict")
        template = copy.deepcopy(case.get("template", {}))
        objs = [_mk(CVR, r, template) for r in recs]
        if any(r.get("holds") in ("template", "default") for r in recs):
            out.cls("shared-votes-dict")
        try:
            merged = CVR.merge_cvrs(objs)
        except ValueError as e:
            out.expect(conflict, "merge:ValueError-without-conflict", repr(e))
            return
        except Exception as e:  # noqa
            out.lib_exception("merge", e)
            return
        if not out.expect(not conflict, "merge:conflicting-tally-pools-accepted",
                          lambda: [(m.id, m.tally_pool) for m in merged]):
            return
        if not out.expect(isinstance(merged, list) and [m.id for m in merged] == list(model.keys()),
                          "merge:ids-or-order", lambda: [getattr(m, "id", m) for m in merged]):
            return
        for m, (i, ref) in zip(merged, model.items()):
            out.expect(m.votes == ref["votes"], "merge:votes", lambda: (i, m.votes, ref["votes"]))
            out.expect(isinstance(m.phantom, bool) and m.phantom == all(ref["ph"]), "merge:phantom", lambda: (i, m.phantom, ref["ph"]))
            out.expect(isinstance(m.pool, bool) and m.pool == any(ref["pool"]), "merge:pool", lambda: (i, repr(m.pool)[:80], ref["pool"]))
            tps = {t for t in ref["tp"] if t is not None}
            out.expect(m.tally_pool == (next(iter(tps)) if tps else None), "merge:tally_pool", lambda: (i, m.tally_pool, ref["tp"]))
        # a list with one record per identifier merges to itself
        snap = [(m.id, copy.deepcopy(m.votes), m.phantom, m.pool, m.tally_pool) for m in merged]
        try:
            again = CVR.merge_cvrs(merged)
        except Exception as e:  # noqa
            out.lib_exception("merge(merged)", e)
            return
        out.expect([(m.id, m.votes, m.phantom, m.pool, m.tally_pool) for m in again] == snap, "merge:not-idempotent",
                   lambda: [(m.id, m.votes, m.phantom, repr(m.pool)[:20], m.tally_pool) for m in again][:4])
        return

    # ---- RAIRE reader
    if case.get("size"):
        # the rows repeated up to the given number; the identifiers of the first half of the repetitions come round again in
        # the second half, so the rows of one card lie thousands of rows apart
        nb, size = len(case["ballots"]), case["size"]
        R = max(1, (size // nb) // 2)
        case = dict(case, ballots=[[case["ballots"][j % nb][0], f"{case['ballots'][j % nb][1]}-{(j // nb) % R}", case["ballots"][j % nb][2]] for j in range(size)])
        out.cls("thousands-of-rows")
    rows = [[str(len(case["contests"]))]]
    for c in case["contests"]:
        rows.append(["Contest", c["id"], str(len(c["cands"]))] + list(c["cands"]))
    for cid, bid, ranking in case["ballots"]:
        rows.append([cid, bid] + list(ranking))
    model = OrderedDict()
    seen = {}
    for cid, bid, ranking in case["ballots"]:
        ranks = {}
        for k, c in enumerate(ranking):
            ranks.setdefault(str(c), k + 1)   # a candidate named again keeps its first position
        model.setdefault(bid, {})[cid] = ranks
        seen.setdefault(bid, []).append(cid)
    if any(len(v) >= 2 for v in seen.values()):
        out.nontrivial = True
        out.cls("raire-repeated-ballot-id")
    if any(len(set(v)) < len(v) for v in seen.values()):
        out.cls("raire-same-contest-twice")
    out.cls("raire-file" if case["file"] else "raire-mem")
    try:
        if case["file"]:
            d = tempfile.mkdtemp(prefix="c18_", dir=_work())
            try:
                p = os.path.join(d, "in.raire")
                with open(p, "w", newline="") as fh:
                    # (a CSV writer may quote every field; quotes are not part of the identifiers)
                    csv.writer(fh, quoting=csv.QUOTE_ALL if len(rows) % 3 == 0 else csv.QUOTE_MINIMAL).writerows(rows)
                res = CVR.from_raire_file(p)
                cvrs = res[0]
                out.expect(res[2] == len(cvrs), "raire:unique-id-count", lambda: res[1:])
            finally:
                shutil.rmtree(d, ignore_errors=True)
        else:
            keep = copy.deepcopy(rows)
            first = CVR.from_raire(rows, phantom=not case["phantom"])[0]   # the rows were read before (as the other kind of record)
            out.expect(rows == keep, "reader-alters-the-callers-rows", lambda: (rows[:3], keep[:3]))
            rows = keep
            cvrs = CVR.from_raire(rows, phantom=case["phantom"])[0]
    except Exception as e:  # noqa
        out.lib_exception("raire", e)
        return
    if not out.expect([c.id for c in cvrs] == list(model.keys()), "raire:ids-or-order", lambda: [c.id for c in cvrs]):
        return
    for c, (bid, votes) in zip(cvrs, model.items()):
        out.expect(c.votes == votes, "raire:votes", lambda: (bid, c.votes, votes))
        out.expect(c.phantom == case["phantom"], "raire:phantom", lambda: (bid, c.phantom))


def _work():
    from harness.boot import VERIF

    d = os.path.join(VERIF, ".work")
    os.makedirs(d, exist_ok=True)
    return d
