"""C14  RAIRE and the audit interpret every ranked ballot identically."""
import csv
import itertools
import os
import shutil
import tempfile

from hypothesis import strategies as st

from strategies import irv as si

ID = "C14"
TECHNIQUE = "exhaustive differential comparison of audit-side and generator-side ballot predicates for <=4 candidates; Hypothesis-generated rankings, RAIRE files and profiles beyond"
RULE = (
    "exhaustive case: every partial ranking (65 for 4 candidates) x every (winner, loser) pair x every eliminated set not "
    "containing them, for 2, 3 and 4 candidates; generated cases: 5-7 candidates with random rankings / pairs / eliminated "
    "sets; generated .raire files (1-3 contests, repeated ballot ids, duplicate-free rankings) read by both readers; "
    "generated profiles whose returned assertions are re-applied to the CVRs. Non-trivial = a comparison where the ballot "
    "ranks the winner or the loser (predicates case), a file with a ballot id in >=2 contests (reader case), a returned NEN "
    "assertion (tally case). distinct = canonical JSON (the exhaustive case counts once)."
)
ASSUMPTIONS = [
    "audit-side ranks are 1-based positive integers, generator-side ranks are 0-based, as each side's reader produces them",
    "assertions are built through make_assertions_from_json from the JSON shape the audit consumes",
    "rankings are duplicate-free and only mention declared candidates",
]
EXHAUSTIVE = False  # only the n<=4 sub-domain is exhaustive; evidence says so in `classes` / rule


def shards(tier):
    n = 600 if tier == "quick" else 15000
    return [
        {"name": "exhaustive-n<=4", "mode": "exhaustive", "examples": 1},
        {"name": "predicates-n5-7", "mode": "pred", "examples": n},
        {"name": "readers", "mode": "readers", "examples": n // 2},
        {"name": "returned-tallies", "mode": "tally", "examples": n // 2},
        # deeper searches: 4..6 candidates, where assertions are created several levels down a dive
        {"name": "returned-tallies-deep-1", "mode": "tally", "n_min": 4, "n_max": 6, "examples": n},
        {"name": "returned-tallies-deep-2", "mode": "tally", "n_min": 4, "n_max": 6, "examples": n},
        {"name": "returned-tallies-deep-3", "mode": "tally", "n_min": 5, "n_max": 6, "examples": n},
    ]


def strategy(shard):
    if shard["mode"] == "exhaustive":
        return st.just({"mode": "exhaustive", "ns": [2, 3, 4]})
    if shard["mode"] == "pred":
        @st.composite
        def pred(draw):
            n = draw(st.integers(5, 7))
            # letters, or numeric identifiers that are substrings of one another (real candidate ids are numbers)
            cands = (si.CANDS if draw(st.booleans()) else ["4", "47", "7", "74", "44", "77", "474"])[:n]
            if draw(st.integers(0, 3)) == 0:
                # a long ballot paper: ten to thirteen candidates, so that ranks reach two digits
                n = draw(st.integers(10, 13))
                cands = [str(c) for c in range(1, n + 1)] if draw(st.booleans()) else list("ABCDEFGHIJKLM")[:n]
            w, l = draw(st.lists(st.sampled_from(cands), min_size=2, max_size=2, unique=True))
            others = [c for c in cands if c not in (w, l)]
            E = sorted(draw(st.sets(st.sampled_from(others))))
            ranks = [draw(si.pref_list(cands)) for _ in range(draw(st.integers(1, 12)))]
            if n >= 10:
                ranks = [list(draw(st.permutations(cands)))[: draw(st.integers(n - 3, n))] if draw(st.booleans()) else r for r in ranks]
            return {"mode": "pred", "cands": cands, "w": w, "l": l, "E": E, "rankings": ranks}

        return pred()
    if shard["mode"] == "readers":
        @st.composite
        def readers(draw):
            k = draw(st.integers(1, 3))
            contests = []
            for i in range(k):
                n = draw(st.integers(2, 5))
                # (identifiers are whatever stands between the commas: numbers in the shipped data, names with blanks elsewhere)
                cs = draw(st.lists(st.sampled_from(["15", "16", "17", "18", "45", "7", "Ann Lee", "O Brien"]), min_size=n, max_size=n, unique=True))
                contests.append({"id": str(339 + i), "cands": cs, "winner": draw(st.sampled_from(cs)),
                                 "informal": draw(st.sampled_from([None, 0, 3]))})
            rows = []
            for _ in range(draw(st.integers(0, 12))):
                c = draw(st.sampled_from(contests))
                bid = draw(st.sampled_from(["99813_1_1", "99813_1_3", "99813_1_6", "5"]))
                r = draw(si.pref_list(c["cands"]))
                if draw(st.integers(0, 5)) == 0:
                    # the ballot also names somebody who is not a candidate of the contest (a write-in), anywhere in the ranking
                    j = draw(st.integers(0, len(r)))
                    r = r[:j] + ["WRITEIN"] + r[j:]
                elif len(r) >= 1 and draw(st.integers(0, 5)) == 0:
                    # a voter may rank the same candidate again further down: the later mention means nothing
                    j = draw(st.integers(0, len(r) - 1))
                    r = r[: j + 1] + [draw(st.sampled_from(r[: j + 1]))] + r[j + 1:]
                rows.append([c["id"], bid, r])
            return {"mode": "readers", "contests": contests, "rows": rows,
                    "final_newline": draw(st.sampled_from([True, True, False]))}

        return readers()
    return si.profile(n_min=shard.get("n_min", 3), n_max=shard.get("n_max", 5), max_ballots=40).map(lambda p: dict(p, mode="tally"))


def _partial_rankings(cands):
    for k in range(len(cands) + 1):
        yield from itertools.permutations(cands, k)


def _compare(out, cands, w, l, E_sets, rankings):
    """audit assorter vs generator predicates for one (w,l) over eliminated sets and rankings. returns #comparisons."""
    from shangrla.core.Audit import Assertion, Contest, CVR
    from shangrla.core.NonnegMean import NonnegMean
    from shangrla.raire.raire_utils import NEBAssertion, NENAssertion

    con = Contest.from_dict({"id": "K", "name": "K", "risk_limit": 0.05, "cards": 100, "choice_function": "IRV", "n_winners": 1,
                             "candidates": list(cands), "winner": [w], "audit_type": "POLLING", "test": NonnegMean.alpha_mart,
                             "use_style": True})
    js = [{"winner": w, "loser": l, "assertion_type": "WINNER_ONLY", "already_eliminated": ""}]
    for E in E_sets:
        js.append({"winner": w, "loser": l, "assertion_type": "IRV_ELIMINATION", "already_eliminated": list(E)})
    import json as _json

    js = _json.loads(_json.dumps(js))   # as read from the assertion file: equal strings, not the library's constant objects
    asn = Assertion.make_assertions_from_json(contest=con, candidates=list(cands), json_assertions=js)
    keys = list(asn.keys())
    # the cards also carry a second ranked contest with the same candidate identifiers (candidates are numbered per
    # contest in real exports), ranked the other way round, and its assertions are evaluated on the card first
    con2 = Contest.from_dict({"id": "K2", "name": "K2", "risk_limit": 0.05, "cards": 100, "choice_function": "IRV", "n_winners": 1,
                              "candidates": list(cands), "winner": [w], "audit_type": "POLLING", "test": NonnegMean.alpha_mart,
                              "use_style": True})
    asn2 = Assertion.make_assertions_from_json(contest=con2, candidates=list(cands), json_assertions=_json.loads(_json.dumps(js)))
    gen = [NEBAssertion("K", w, l)] + [NENAssertion("K", w, l, list(E)) for E in E_sets]
    if not out.expect(len(keys) == len(gen), "json-assertion-count", lambda: (keys, len(gen))):
        return 0, False
    n = 0
    inter = False
    for r in rankings:
        ranks = {c: i + 1 for i, c in enumerate(r)}
        # the same ballot held in dicts keyed in preference order, in candidate order and in reverse preference order:
        # a ranked vote is the mapping candidate -> rank, whatever the order of the keys
        variants = [ranks, {c: ranks[c] for c in cands if c in ranks}, {c: ranks[c] for c in reversed(list(r))}]
        rc = {"K": {c: i for i, c in enumerate(r)}}
        rc_variants = [rc, {"K": {c: rc["K"][c] for c in cands if c in rc["K"]}}]
        for vi, votes in enumerate(variants):
            cv = CVR(id="x", votes={"K": votes})
            if vi == 0 and len(r) >= 2:
                cv = CVR(id="x", votes={"K2": {c: len(r) - i for i, c in enumerate(r)}, "K": votes})
                for a2 in asn2.values():
                    a2.assorter.assort(cv)
            for k, a in zip(keys, gen):
                want = (a.is_vote_for_winner(rc) - a.is_vote_for_loser(rc) + 1) / 2
                got = asn[k].assorter.assort(cv)
                n += 1
                if want != 0.5:
                    inter = True
                if not out.expect(got == want, "assorter!=generator-verdict", lambda: {"assertion": k, "ranking": list(r), "dict-key-order": list(votes), "audit": got, "generator": want}):
                    return n, inter
        if len(r) >= 2:
            # the ballot also ranks an identifier that is not a candidate (a write-in) after its first choice: both readers
            # keep positions in the full list, so the ranks have a gap; the verdicts are those of the ballot without it
            gap_a = {c: (i + 1 if i == 0 else i + 2) for i, c in enumerate(r)}
            gap_g = {"K": {c: (i if i == 0 else i + 1) for i, c in enumerate(r)}}
            cvg = CVR(id="x", votes={"K": gap_a})
            for k, a in zip(keys, gen):
                dense = (a.is_vote_for_winner(rc) - a.is_vote_for_loser(rc) + 1) / 2
                want = (a.is_vote_for_winner(gap_g) - a.is_vote_for_loser(gap_g) + 1) / 2
                got = asn[k].assorter.assort(cvg)
                n += 1
                if not out.expect(got == want == dense, "ranks-with-a-gap:assorter/generator/dense-ballot-disagree",
                                  lambda: {"assertion": k, "ranking": list(r), "audit": got, "generator": want, "without-the-write-in": dense}):
                    return n, inter
        for k, a in zip(keys, gen):
            w0 = (a.is_vote_for_winner(rc), a.is_vote_for_loser(rc))
            w1 = (a.is_vote_for_winner(rc_variants[1]), a.is_vote_for_loser(rc_variants[1]))
            n += 1
            if not out.expect(w0 == w1, "generator-verdict-depends-on-dict-key-order", lambda: {"assertion": k, "ranking": list(r), "verdicts": (w0, w1)}):
                return n, inter
    return n, inter


def evaluate(case, out):
    mode = case["mode"]
    out.cls(mode)
    if mode == "exhaustive":
        total = 0
        for n, ids in [(n, si.CANDS) for n in case["ns"]] + [(3, ["4", "47", "7"]), (4, ["1", "12", "2", "21"])]:
            cands = ids[:n]
            ranks = list(_partial_rankings(cands))
            for w, l in itertools.permutations(cands, 2):
                others = [c for c in cands if c not in (w, l)]
                Es = [E for k in range(len(others) + 1) for E in itertools.combinations(others, k)]
                m, _ = _compare(out, cands, w, l, Es, ranks)
                total += m
                if out.failures:
                    return
        out.enumerated = total
        out.cls(f"exhaustive-comparisons={total}")
        out.nontrivial = True
        return
    if mode == "pred":
        m, inter = _compare(out, case["cands"], case["w"], case["l"], [tuple(case["E"])], [tuple(r) for r in case["rankings"]])
        out.enumerated = m
        out.nontrivial = inter
        return
    if mode == "readers":
        from harness.boot import VERIF
        from shangrla.core.Audit import CVR
        from shangrla.raire.raire_utils import load_contests_from_raire

        lines = [[str(len(case["contests"]))]]
        for c in case["contests"]:
            row = ["Contest", c["id"], str(len(c["cands"]))] + c["cands"] + ["winner", c["winner"]]
            if c["informal"] is not None:
                row += ["informal", str(c["informal"])]
            lines.append(row)
        for cid, bid, r in case["rows"]:
            lines.append([cid, bid] + list(r))
        os.makedirs(os.path.join(VERIF, ".work"), exist_ok=True)
        d = tempfile.mkdtemp(prefix="c14_", dir=os.path.join(VERIF, ".work"))
        try:
            p = os.path.join(d, "x.raire")
            with open(p, "w", newline="") as fh:
                csv.writer(fh, lineterminator="\n").writerows(lines)
            if not case.get("final_newline", True):
                txt = open(p).read()
                with open(p, "w", newline="") as fh:
                    fh.write(txt.rstrip("\n"))   # the last line of a file need not end in a newline
                out.cls("file-without-final-newline")
            try:
                cv, _, _ = CVR.from_raire_file(p)
                contests, rc = load_contests_from_raire(p)
            except Exception as e:  # noqa
                out.lib_exception("readers", e)
                return
        finally:
            shutil.rmtree(d, ignore_errors=True)
        # the same rows parsed by the caller (numeric tokens as numbers) give the same records as the file does
        try:
            parsed = [[(int(tok) if (i >= 2 and k > len(case["contests"]) and str(tok).isdigit()) else tok) for i, tok in enumerate(row)]
                      for k, row in enumerate(lines)]
            cv_mem = CVR.from_raire(parsed)[0]
            out.expect([(c.id, c.votes) for c in cv_mem] == [(c.id, c.votes) for c in cv], "records-from-parsed-rows!=records-from-the-file",
                       lambda: ([(c.id, c.votes) for c in cv_mem][:3], [(c.id, c.votes) for c in cv][:3]))
        except Exception as e:  # noqa
            out.lib_exception("from_raire(parsed rows)", e)
            return
        A = {(c.id, k): [x for x, _ in sorted(v.items(), key=lambda kv: kv[1])] for c in cv for k, v in c.votes.items()}
        B = {(bid, k): [x for x, _ in sorted(v.items(), key=lambda kv: kv[1])] for bid, vs in rc.items() for k, v in vs.items()}
        want = {}
        decl = {c["id"]: set(c["cands"]) for c in case["contests"]}
        for cid, bid, r in case["rows"]:
            want[(bid, cid)] = list(dict.fromkeys(r))   # order of first mention
            if len(set(r)) < len(r):
                out.cls("candidate-ranked-twice")
        out.expect(len({c.id for c in cv}) == len(cv), "audit-reader-returns-several-records-for-one-ballot", lambda: [c.id for c in cv])
        # (the generator keeps declared candidates only; the audit's reader keeps every name: compare on the declared ones)
        A_decl = {k: [x for x in v if x in decl.get(k[1], set())] for k, v in A.items()}
        out.expect(A_decl == B, "readers-disagree", lambda: {"audit": A_decl, "generator": B})
        out.expect(A == want, "audit-reader!=file", lambda: {"audit": A, "file": want})
        # and, ballot by ballot, the audit's assorter for "w is not eliminated before l" on the record the audit read equals
        # (w - l + 1)/2 with the generator's verdicts on the record the generator read
        from shangrla.core.Audit import Assertion, Contest as AContest
        from shangrla.core.NonnegMean import NonnegMean
        from shangrla.raire.raire_utils import NEBAssertion
        import json as _json2
        byid = {c.id: c for c in cv}
        for c in case["contests"]:
            if len(c["cands"]) < 2:
                continue
            w, l = c["cands"][0], c["cands"][1]
            con = AContest.from_dict({"id": c["id"], "name": c["id"], "risk_limit": 0.05, "cards": 100, "choice_function": "IRV", "n_winners": 1,
                                      "candidates": list(c["cands"]), "winner": [w], "audit_type": "POLLING", "test": NonnegMean.alpha_mart,
                                      "use_style": True})
            js = _json2.loads(_json2.dumps([{"winner": w, "loser": l, "assertion_type": "WINNER_ONLY", "already_eliminated": ""}]))
            a = next(iter(Assertion.make_assertions_from_json(contest=con, candidates=list(c["cands"]), json_assertions=js).values()))
            g = NEBAssertion(c["id"], w, l)
            for bid, rec in rc.items():
                if c["id"] not in rec or bid not in byid or not byid[bid].has_contest(c["id"]):
                    continue
                wantv = (g.is_vote_for_winner(rec) - g.is_vote_for_loser(rec) + 1) / 2
                gotv = a.assorter.assort(byid[bid])
                if not out.expect(gotv == wantv, "file:assorter!=generator-verdict", lambda: {"contest": c["id"], "ballot": bid, "audit": gotv, "generator": wantv,
                                                                                           "audit-record": byid[bid].votes.get(c["id"]), "generator-record": rec.get(c["id"])}):
                    return
        out.expect({c.name for c in contests} == {c["id"] for c in case["contests"]}, "contest-ids", lambda: [c.name for c in contests])
        byb = {}
        for cid, bid, r in case["rows"]:
            byb.setdefault(bid, set()).add(cid)
        out.nontrivial = any(len(v) >= 2 for v in byb.values())
        return
    # returned assertions reproduce their tallies
    from shangrla.raire import sample_estimator
    from shangrla.raire.raire import compute_raire_assertions
    from shangrla.raire.raire_utils import Contest as RContest, NENAssertion

    cvrs = si.raire_cvrs(case)
    contest = RContest(case.get("contest_name", "c"), list(case["cands"]), case["winner"], len(case["ballots"]) + case.get("tot_extra", 0), order=case["order_hint"] or [])
    try:
        res = compute_raire_assertions(contest, cvrs, case["winner"], si.difficulty(case["asn"]), False)
    except Exception as e:  # noqa
        out.lib_exception("compute_raire_assertions", e)
        return
    for a in res:
        if a is None:
            continue  # C04's business
        try:
            tw = sum(a.is_vote_for_winner(r) for r in cvrs.values())
            tl = sum(a.is_vote_for_loser(r) for r in cvrs.values())
        except Exception as e:  # noqa
            out.lib_exception("re-apply", e)
            return
        out.expect((tw, tl) == (a.votes_for_winner, a.votes_for_loser), "returned-assertion-does-not-reproduce-its-tallies",
                   lambda: {"assertion": a.to_str(), "reported": (a.votes_for_winner, a.votes_for_loser), "re-applied": (tw, tl)})
        if isinstance(a, NENAssertion):
            out.nontrivial = True
            out.cls("NEN-returned")
