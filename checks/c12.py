"""C12  Test statistics equal their published definitions; ALPHA and betting forms agree."""
import math

from hypothesis import strategies as st

from oracles.nonneg_ref import as_list, mu_seq
from strategies import nonneg

ID = "C12"
TECHNIQUE = "differential testing against pure-Python reference products written from the published formulas"
RULE = (
    "case = (configuration, sample) plus a (lambda, eta, mu) triple for the conversion functions. The reference recomputes "
    "mu_i and the product T_j in plain Python floats (eta_i / lambda_i taken from the shipped estimator / bet, as the "
    "property says) and compares min(1,1/T_j) with the reported history (rtol 1e-9); an ALPHA run whose estimator returns "
    "mu(1+lambda(u-mu)) is compared with the betting run. Non-trivial = at least 2 judged entries with a reference value "
    "strictly inside (0,1) or a stated convention (p=0 / p=1) exercised. distinct = canonical JSON."
)
ASSUMPTIONS = [
    "parameter domains as for C11",
    "entries at or after a position where the reference mu_i is within 1e-6 u of 0 or u are not judged (conventions the statement does not fix); counted in skipped_not_judged",
    "the entry at which the running total first exceeds N t is accepted as either 0 or the product (C05 fixes that it may only be lowered) unless it is the last entry of an ALPHA or betting history, which must be 0; later entries must be 0",
    "for the SPRT the entries at or after a position where (N eta - S)/(N-j+1) leaves [0,u] are not judged (alternative impossible)",
    "products compared with relative tolerance 1e-9; conversion round trips with 1e-7 where mu is at least 1e-3 u away from 0 and no closer than 1e-6 u to u",
]
REL = 1e-9


def shards(tier):
    n = 1000 if tier == "quick" else 15000
    return [{"name": f, "family": f, "examples": n} for f in nonneg.FAMILIES]


def strategy(shard):
    @st.composite
    def case(draw):
        cfg = draw(nonneg.config(shard["family"]))
        x = draw(nonneg.sample(cfg))
        u = cfg["u"]
        before = None
        if cfg["N"] is not None and draw(st.integers(0, 120)) == 0:
            # a long sample (a thousand draws or more), evaluated right after a sample of the same length from a population
            # of another size (two contests of one audit): behaviour must not depend on the size of the sample
            n = draw(st.sampled_from([1000, 1024, 1200]))
            cfg["N"] = n + draw(st.integers(0, 400))
            vals = [draw(nonneg._value(u, cfg["t"])) for _ in range(4)]
            x = [float(vals[(i // 37) % 4]) for i in range(n)]
            before = {"N": cfg["N"] + draw(st.sampled_from([1, 777, 5000]))}
            conv = {"mu": u * 0.5, "lam": 0.5 / u, "eta_frac": 0.5}
            return {"cfg": cfg, "x": x, "conv": conv, "before": before}
        if cfg["estim"] == "optimal_comparison" and draw(st.integers(0, 5)) == 0:
            # no two-vote overstatements assumed: the alternative sits exactly on the upper bound, so one draw of 0 sets the
            # statistic to 0 for good, however many large draws follow
            cfg["kw"]["rate_error_2"] = 0.0
            k = draw(st.integers(1, 40))
            x = ([u] * k + [0.0] + [u] * draw(st.integers(0, 58 - k)))
            if cfg["N"] is not None:
                x = x[: cfg["N"]]
        if cfg["N"] is not None and len(x) >= 1 and draw(st.integers(0, 7)) == 0:
            # a small population sampled nearly to exhaustion in which the LAST draw is the one that takes the total over N t
            x = [float(v) for v in x]
            cfg["N"] = len(x) + draw(st.integers(0, 2))
            head = x[:-1]
            while head and sum(head) > cfg["N"] * cfg["t"]:
                head[head.index(max(head))] = 0.0
            x = head + [float(u)]
        conv = {"mu": u * draw(st.one_of(st.floats(1e-3, 1 - 1e-3), st.sampled_from([1 - 1e-6, 1 - 4e-6, 1 - 1e-5, 1 - 1e-4]))),
                "lam": draw(st.floats(0.0, 2.0)) / u, "eta_frac": draw(st.floats(0.0, 1.0))}
        return {"cfg": cfg, "x": x, "conv": conv}

    return case()


def close(a, b):
    if math.isnan(a) or math.isnan(b):
        return False
    if a == b:
        return True
    return abs(a - b) <= REL * max(abs(a), abs(b)) + 1e-300


def _p(T):
    if math.isnan(T):
        return float("nan")
    if T <= 0:
        return 1.0
    return min(1.0, 1.0 / T) if T != math.inf else 0.0


def reference_history(cfg, x, seq):
    """-> list of (expected p or None when not judged, tag)."""
    u, t, N = cfg["u"], cfg["t"], cfg["N"]
    test = cfg["test"]
    g = cfg["kw"].get("g", 0)
    n = len(x)
    out = []
    if test in ("alpha_mart", "betting_mart", "wald_sprt"):
        mu = mu_seq(N, t, x)
        T = 1.0
        dead = None
        S = 0.0
        for j in range(n):
            m = mu[j]
            if dead is None:
                if N is not None and S > N * t:  # total already exceeds N t before this draw
                    dead = "null-false"
                elif m > u:
                    pass
                elif abs(m) <= 1e-6 * u or abs(u - m) <= 1e-6 * u:
                    dead = "mu-at-boundary"
                elif test == "wald_sprt" and N is not None:
                    raw = (N * cfg["kw"]["eta"] - S) / (N - j)
                    if raw < 0 or raw > u:
                        dead = "alternative-impossible"
            if dead == "null-false":
                out.append((0.0, "p=0-after-total-exceeds"))
            elif dead is not None:
                out.append((None, dead))
            elif m > u:
                # stated convention: p = 1 where mu_i > u; the running product continues in the code, so later entries
                # are not judged either
                # (the remaining mean can only grow once it exceeds u, so every later entry is 1 as well)
                out.append((1.0, "p=1-mu>u"))
            else:
                if test == "betting_mart":
                    T *= 1 + seq[j] * (x[j] - m)
                else:
                    e = seq[j]
                    T *= (x[j] * e / m + (u - x[j]) * (u - e) / (u - m)) / u
                S2 = S + x[j]
                if N is not None and S2 > N * t:
                    if j == n - 1 and test in ("alpha_mart", "betting_mart") and S2 > N * t * (1 + 1e-9) + 1e-9:
                        # the last draw takes the total over N t (clearly, not by a rounding error): p = 0 there
                        out.append((0.0, "p=0-total-exceeds-at-the-last-draw"))
                    else:
                        out.append((("either", _p(T)), "total-first-exceeds"))
                elif T < 1e-12:
                    # 'martingale effectively vanishes': p = 1 by the definition min(1,1/T) as well
                    out.append((1.0, "vanished"))
                else:
                    out.append((_p(T), "product"))
            S += x[j]
        return out
    if test == "kaplan_kolmogorov":
        xs = [v + g for v in x]
        mu = mu_seq(N, t + g, xs)
        T = 1.0
        dead = None
        for j in range(n):
            m = mu[j]
            if dead is None and m < 0:
                dead = "null-false"
            if dead is None and m == 0.0:
                # exactly nothing is left under the null: a positive (padded) draw refutes it, a zero says nothing
                if xs[j] > 0:
                    dead = "null-false"
                else:
                    out.append((_p(T), "product"))
                    continue
            if dead is None and abs(m) <= 1e-6 * max(1.0, t + g):
                dead = "mu-at-boundary"
            if dead == "null-false":
                out.append((0.0, "p=0-after-total-exceeds"))
            elif dead:
                out.append((None, dead))
            else:
                T *= xs[j] / m
                out.append((_p(T), "product"))
        return out
    if test == "kaplan_markov":
        P = 1.0
        for j in range(n):
            d = x[j] + g
            P = P * ((t + g) / d) if d != 0 else math.inf
            out.append((min(1.0, P), "product"))
        return out
    if test == "kaplan_wald":
        T = 1.0
        for j in range(n):
            T *= (1 - g) * x[j] / t + g
            out.append((_p(T) if T > 0 else 1.0, "product"))
        return out
    raise ValueError(test)


def compare(out, ref, hist, label):
    judged = interesting = 0
    for j, (want, tag) in enumerate(ref):
        if want is None:
            out.skip(tag)
            continue
        got = hist[j]
        if isinstance(want, tuple):
            ok = got == 0.0 or close(got, want[1])
            want_s = ("0 or", want[1])
        else:
            ok = close(got, want)
            want_s = want
        judged += 1
        if tag.startswith("p=") or (not isinstance(want, tuple) and 0 < want < 1):
            interesting += 1
        out.cls(tag)
        if not out.expect(ok, f"{label}:{tag}", lambda: (j, got, want_s)):
            break
    return judged, interesting


def evaluate(case, out):
    import numpy as np
    from shangrla.core.NonnegMean import NonnegMean

    cfg, x = case["cfg"], case["x"]
    u, t, N = cfg["u"], cfg["t"], cfg["N"]
    n = len(x)
    out.cls(cfg["family"])
    test = nonneg.make_test(cfg)
    xa = nonneg.natural(x)   # whole-number samples are integer-typed arrays, as 0/1 assorter values are
    if case.get("before"):
        out.cls("long-sample-after-another-population-size")
        try:
            nonneg.make_test(dict(cfg, N=case["before"]["N"])).test(nonneg.natural(list(reversed(x))))
        except Exception:  # noqa  (that other evaluation is not what is judged here)
            pass
    try:
        keep = xa.copy()
        p, hist = test.test(xa)
        hist = as_list(hist, n)
        p_again, hist_again = test.test(xa)   # same object, same array: the definitions do not depend on earlier calls
        hist_again = as_list(hist_again, n)
        out.expect(bool(np.array_equal(xa, keep)), "test-alters-the-callers-sample", lambda: (xa.tolist()[:6], keep.tolist()[:6]))
        out.expect(all((a == b) or (math.isnan(a) and math.isnan(b)) for a, b in zip(hist, hist_again)),
                   "second-evaluation-differs-from-the-first", lambda: (hist[:5], hist_again[:5]))
        seq = None
        if cfg["test"] == "alpha_mart":
            seq = as_list(test.estim(xa), n)
            if cfg["estim"] == "fixed_alternative_mean":
                # the fixed alternative has a closed form: (N eta - S_j)/(N-j+1) kept inside [0,u]; eta itself for IID draws
                eta0 = cfg["kw"]["eta"]
                if N is None:
                    own = [eta0] * n
                else:
                    own, S = [], 0.0
                    for j, v in enumerate(x):
                        own.append(min(max((N * eta0 - S) / (N - j), 0.0), u))
                        S += v
                out.expect(all(close(a, b) or abs(a - b) <= 1e-12 for a, b in zip(seq, own)), "fixed-alternative!=its-definition", lambda: (seq[:5], own[:5]))
                seq = own
        elif cfg["test"] == "betting_mart":
            seq = as_list(test.bet(xa), n)
            if cfg["bet"] == "fixed_bet":
                own = [cfg["kw"]["lam"]] * n   # a fixed bet is the configured fraction, whatever the sample looks like
                out.expect(all(a == b for a, b in zip(seq, own)), "fixed-bet!=configured-fraction", lambda: (seq[:5], own[:5]))
                seq = own
        elif cfg["test"] == "wald_sprt":
            eta = cfg["kw"]["eta"]
            if N is None:
                seq = [eta] * n
            else:
                seq, S = [], 0.0
                for j, v in enumerate(x):
                    seq.append((N * eta - S) / (N - j))
                    S += v
    except Exception as e:  # noqa
        out.lib_exception("test", e)
        return
    ref = reference_history(cfg, x, seq)
    judged, interesting = compare(out, ref, hist, cfg["test"])
    if interesting >= 2:
        out.nontrivial = True

    # ALPHA form of a betting run
    if cfg["test"] == "betting_mart":
        def est(self, xx, **kw):
            _, _, _, m = self.sjm(self.N, self.t, xx)
            return self.lam_to_eta(self.bet(xx), m)

        kw = dict(cfg["kw"])
        alpha = NonnegMean(test=NonnegMean.alpha_mart, estim=est, bet=getattr(NonnegMean, cfg["bet"]), u=u,
                           N=np.inf if N is None else N, t=t, **kw)
        try:
            _, h2 = alpha.test(xa)
            h2 = as_list(h2, n)
        except Exception as e:  # noqa
            out.lib_exception("alpha-form", e)
            return
        first_boundary = next((j for j, (_w, tag) in enumerate(ref) if tag == "mu-at-boundary"), None)
        mus = mu_seq(N, t, x)
        for j, (want, tag) in enumerate(ref):
            # the ALPHA form computes a factor 1 + lam (x - mu) as a difference of numbers of size u: when the factor itself is
            # tiny (a bet at the very cap against a draw of 0) its relative rounding error is eps/factor, and it stays in
            # the product for good. The identity is exact arithmetic; the two forms are compared while every factor so far
            # is at least 1e-4 (relative error 1e-12 per factor, tolerance 1e-9)
            if mus[j] <= u and abs(1 + seq[j] * (x[j] - mus[j])) < 1e-4:
                out.cls("alpha-vs-betting:stopped-at-an-ill-conditioned-factor")
                break
            if j == first_boundary and not (math.isnan(hist[j]) and math.isnan(h2[j])):
                # the draw at which the null mean reaches 0 or u: the two forms still report the same value there
                # (what either reports afterwards is not defined by the products and is not compared)
                out.cls("alpha-vs-betting-at-the-boundary-draw")
                if not out.expect(close(hist[j], h2[j]) or abs(hist[j] - h2[j]) <= 1e-9, "alpha-vs-betting:at-boundary-draw", lambda: (j, hist[j], h2[j])):
                    break
                continue
            if want is None or isinstance(want, tuple) or tag != "product":
                continue
            if not out.expect(close(hist[j], h2[j]) or abs(hist[j] - h2[j]) <= 1e-9, "alpha-vs-betting", lambda: (j, hist[j], h2[j])):
                break
        out.cls("alpha-vs-betting")

    # conversion functions are mutual inverses
    cv = case["conv"]
    mu, lam = cv["mu"], cv["lam"]
    eta = mu + (u - mu) * cv["eta_frac"]
    try:
        e1 = float(test.lam_to_eta(lam, mu))
        l1 = float(test.eta_to_lam(e1, mu))
        l2 = float(test.eta_to_lam(eta, mu))
        e2 = float(test.lam_to_eta(l2, mu))
    except Exception as e:  # noqa
        out.lib_exception("conversion", e)
        return
    out.expect(abs(e1 - mu * (1 + lam * (u - mu))) <= 1e-12 * max(1, abs(e1)), "lam_to_eta-definition", lambda: (lam, mu, e1))
    out.expect(abs(l1 - lam) <= 1e-7 * max(1.0, abs(lam)), "eta_to_lam(lam_to_eta)!=id", lambda: (lam, mu, e1, l1))
    out.expect(abs(e2 - eta) <= 1e-7 * max(1.0, abs(eta)), "lam_to_eta(eta_to_lam)!=id", lambda: (eta, mu, l2, e2))
