"""C10  Escalation only ever extends the evidence (histories of audit rounds).

Rule-based state machine: the state is an audit in progress; each step is one more round with non-decreasing
per-contest sample sizes, drawn either from scratch ("redraw") or continued from the previously selected cards
("continue").  The same executor replays a recorded history from its JSON form.
"""
import contextlib
import io
import math

from hypothesis import strategies as st
from hypothesis.stateful import RuleBasedStateMachine, initialize, precondition, rule

from strategies import audit as sa

ID = "C10"
TECHNIQUE = "Hypothesis rule-based state machine over audit histories (rounds x redraw/continue); invariants checked after every round"
RULE = (
    "history = an audit (1-3 contests of any kind, CARD_COMPARISON / ONEAUDIT, style-based sampling, 4..30 cards with styles, "
    "phantoms, pooled batches, hidden MVR per card, distinct sample numbers) followed by 1..8 rounds; each round raises every "
    "contest's sample size by a generated increment >= 0 and draws with the redraw or the continue variant, then runs the "
    "documented pipeline (consistent_sampling -> selection order -> prep_comparison_sample -> set_p_values); a quarter of the "
    "histories start with a rehearsal draw under other numbers on the same list object, a fifth of the rounds first sort the "
    "list in place by sample number. Invariants after "
    "every round: no card twice; selected contains the previous selection; every assertion's data sequence has the previous "
    "one as a prefix; p-value non-increasing; confirmed stays confirmed. Non-trivial = >=2 rounds with a strict increase and "
    ">=2 contests with different styles. distinct = canonical JSON of the history."
)
ASSUMPTIONS = [
    "style-based comparison audits only: polling / no-style samples are drawn by sample_from_manifest, not by consistent sampling",
    "sample sizes never exceed the cards listing the contest; margins positive (other audits are not started)",
    "MVRs of a card never change between rounds",
    "after an in-place sort the caller re-reads the positions of the cards already selected (positions change, cards do not)",
]


def shards(tier):
    n = 150 if tier == "quick" else 2500
    return [{"name": f"{v}-{i}", "machine": True, "variants": vs, "examples": n, "steps": 6 if tier == "quick" else 10}
            for v, vs in (("redraw", ["redraw"]), ("continue", ["continue"]), ("mixed", ["redraw", "continue"])) for i in (1, 2, 3)] + [
        # every contest tested by Kaplan-Kolmogorov (one test in nine otherwise): its padding makes the first zero in a later
        # round the interesting event
        {"name": f"kk-{i}", "machine": True, "variants": ["redraw", "continue"], "examples": n, "steps": 6 if tier == "quick" else 10,
         "force_test": "kk"} for i in (1, 2)]


class Exec:
    """Runs one history against the library and reports violated invariants to `out`."""

    def __init__(self, init, out):
        import numpy as np
        from shangrla.core.Audit import Assertion

        self.out = out
        self.init = init
        self.ok = False
        self.rounds = 0
        self.strict = 0
        scn = init["scn"]
        audit, contests, cvrs, mvrs = sa.build(scn)
        for con in contests.values():
            if con.audit_type == "ONEAUDIT":
                for a in con.assertions.values():
                    a.assorter.set_tally_pool_means(cvr_list=cvrs, use_style=True)
        Assertion.set_all_margins_from_cvrs(audit, contests, cvrs)
        for cid in [c for c in contests if not any(cv.has_contest(c) for cv in cvrs)]:
            del contests[cid]
        # contests whose reported outcome the CVRs do not support cannot be audited by comparison at all: they are
        # left out, the audit goes on with the others
        for cid in [c for c, con in contests.items() if not all(a.margin > 0 for a in con.assertions.values())]:
            del contests[cid]
            out.skip("contest-left-out(nonpositive-margin)")
        if not contests:
            out.skip("audit-not-started(no-auditable-contest)")
            return
        for con in contests.values():
            for a in con.assertions.values():
                means = a.assorter.tally_pool_means or {}
                if any(c.pool and np.isnan(means.get(c.tally_pool, 0.0)) for c in cvrs):
                    out.skip("audit-not-started(nan-pool-mean)")
                    return
        if init.get("unbounded"):
            # the tests are configured for sampling with replacement (population size infinite), which is conservative for
            # the cards actually drawn; Kaplan-Kolmogorov needs a finite population and keeps it
            for con in contests.values():
                for a in con.assertions.values():
                    if a.test.test.__name__ != "kaplan_kolmogorov":
                        a.test.N = np.inf
            out.cls("tests-for-sampling-with-replacement")
        if init.get("rehearsal"):
            # a dress rehearsal on the same list of records under other (test) numbers, before the real numbers exist
            from shangrla.core.Audit import CVR
            for c, s in zip(cvrs, init["rehearsal"]):
                c.sample_num = s
            for cid, con in contests.items():
                con.sample_size = min(2, sum(1 for c in cvrs if c.has_contest(cid)))
            CVR.consistent_sampling(cvrs, contests)
            for con in contests.values():
                con.sample_size = 0
            out.cls("rehearsal-draw-first")
        for c, s in zip(cvrs, init["sample_nums"]):
            c.sample_num = s
        self.audit, self.contests, self.cvrs, self.mvrs = audit, contests, cvrs, mvrs
        self.avail = {cid: sum(1 for c in cvrs if c.has_contest(cid)) for cid in contests}
        self.sizes = {cid: 0 for cid in contests}
        self.prev_idx = []
        self.prev_data = {}
        self.prev_p = {}
        self.prev_proved = {}
        styles = {cid: tuple(c.has_contest(cid) for c in cvrs) for cid in contests}
        self.diff_styles = len(set(styles.values())) >= 2
        self.ok = True

    def step(self, rnd):
        """rnd = {"variant": "redraw"|"continue", "inc": {cid: int}}"""
        from shangrla.core.Audit import Assertion, CVR

        out = self.out
        if not self.ok:
            return
        new = {cid: min(self.avail[cid], self.sizes[cid] + max(0, int(rnd["inc"].get(cid, 0)))) for cid in self.contests}
        if all(v == 0 for v in new.values()):
            return
        if any(new[c] > self.sizes[c] for c in new):
            self.strict += 1
        self.sizes = new
        for cid, con in self.contests.items():
            con.sample_size = new[cid]
        if rnd.get("sort_first"):
            # the list of records is put into sample-number order in place (CVR.sort_cvr_sample_num); positions change,
            # cards do not: the caller re-reads the positions of the cards already selected
            held = [self.cvrs[i] for i in self.prev_idx]
            pair = {id(c): m for c, m in zip(self.cvrs, self.mvrs)}
            try:
                CVR.sort_cvr_sample_num(self.cvrs)
            except Exception as e:  # noqa
                out.lib_exception("sort_cvr_sample_num", e)
                self.ok = False
                return
            self.mvrs = [pair[id(c)] for c in self.cvrs]
            pos = {id(c): i for i, c in enumerate(self.cvrs)}
            self.prev_idx = [pos[id(c)] for c in held]
            out.cls("list-sorted-in-place-between-rounds")
        variant = rnd["variant"] if self.prev_idx else "redraw"
        try:
            if variant == "continue":
                idx = CVR.consistent_sampling(self.cvrs, self.contests, sampled_cvr_indices=list(self.prev_idx))
            else:
                idx = CVR.consistent_sampling(self.cvrs, self.contests)
        except Exception as e:  # noqa
            out.lib_exception(f"{variant}:consistent_sampling", e)
            self.ok = False
            return
        idx = [int(i) for i in idx]
        self.rounds += 1
        out.cls(variant)
        if not out.expect(len(set(idx)) == len(idx), f"{variant}:card-selected-twice", lambda: idx):
            self.ok = False
            return
        if not out.expect(set(self.prev_idx) <= set(idx), f"{variant}:selection-lost-cards", lambda: (self.prev_idx, idx)):
            self.ok = False
            return
        # documented pipeline: selection order -> prep_comparison_sample -> set_p_values
        order = {self.cvrs[i].id: {"selection_order": k, "serial": i} for k, i in enumerate(idx)}
        cs = [self.cvrs[i] for i in sorted(idx)]          # as retrieved: some other order
        ms = [self.mvrs[i] for i in sorted(idx, reverse=True)]
        try:
            CVR.prep_comparison_sample(ms, cs, order)
            data = {}
            for cid, con in self.contests.items():
                for k, a in con.assertions.items():
                    if self.sizes[cid] > 0:
                        d, u = a.mvrs_to_data(ms, cs)
                        data[(cid, k)] = [float(v) for v in d]
            live = {cid: con for cid, con in self.contests.items() if self.sizes[cid] > 0}
            with contextlib.redirect_stdout(io.StringIO()):
                Assertion.set_p_values(live, ms, cs)
        except Exception as e:  # noqa
            out.lib_exception(f"{variant}:pipeline", e)
            self.ok = False
            return
        for key, d in data.items():
            cid, k = key
            a = self.contests[cid].assertions[k]
            out.expect(len(d) == self.sizes[cid], f"{variant}:data-length!=sample-size", lambda: (key, len(d), self.sizes[cid]))
            pd_ = self.prev_data.get(key)
            if pd_ is not None:
                if not out.expect(d[: len(pd_)] == pd_, f"{variant}:data-not-append-only", lambda: (key, pd_[:8], d[:8])):
                    self.ok = False
                    return
                pp = self.prev_p[key]
                p = float(a.p_value)
                if not (math.isnan(p) or math.isnan(pp)):
                    out.expect(p <= pp, f"{variant}:risk-increased", lambda: (key, pp, p))
                if self.prev_proved[key]:
                    out.expect(bool(a.proved), f"{variant}:confirmation-lost", lambda: (key, pp, p))
            self.prev_data[key] = d
            self.prev_p[key] = float(a.p_value)
            self.prev_proved[key] = bool(a.proved)
        self.prev_idx = idx
        if rnd.get("what_if"):
            # a what-if draw that is thrown away: how many cards would it be if every contest needed k more?
            try:
                for cid, con in live.items():
                    con.sample_size = min(self.avail[cid], self.sizes[cid] + int(rnd["what_if"]))
                CVR.consistent_sampling(self.cvrs, self.contests, sampled_cvr_indices=list(idx))
            except Exception as e:  # noqa
                out.lib_exception("what-if:consistent_sampling", e)
                self.ok = False
                return
            finally:
                for cid, con in self.contests.items():
                    con.sample_size = self.sizes[cid]
            out.cls("what-if-draw-between-rounds")
        if rnd.get("estimate") is not None:
            # between rounds the auditors ask how many more cards they may need, under error rates of their choosing:
            # planning must not touch the evidence (estimates themselves are C16's business; failures to estimate are ignored)
            import copy as _copy

            aud = _copy.copy(self.audit)
            aud.error_rate_1, aud.error_rate_2 = 0.001, rnd["estimate"]
            for cid, con in live.items():
                try:
                    with contextlib.redirect_stdout(io.StringIO()):
                        con.find_sample_size(aud, mvr_sample=ms, cvr_sample=cs)
                except Exception:  # noqa
                    out.skip("planning-estimate-unavailable")
            out.cls("planning-estimate-between-rounds")

    def nontrivial(self):
        return self.ok and self.strict >= 2 and self.diff_styles and self.rounds >= 2


def _init_strategy(force_test=None):
    @st.composite
    def init(draw):
        scn = draw(sa.scenario(n_contests=(1, 3), audit_types=("CARD_COMPARISON", "ONEAUDIT"), use_style=True, favour_winner=True,
                               n_cards=(4, 30), p_missing=0.35, mvr_modes=("copy",) * 8 + ("other", "phantom", "drop-contest")))
        scn["pool_workflow"] = True
        if force_test:
            for spec in scn["contests"].values():
                spec["test"] = force_test
        n = len(scn["cards"])
        first = draw(st.sampled_from([1, 1, 0]))   # numbering from 1, or from 0 (the first card's number is then 0)
        nums = [int(v) for v in draw(st.permutations(list(range(first, n + first))))]
        # sample numbers are 256-bit integers in practice: distinct numbers may share all their leading 53 bits
        base = draw(st.sampled_from([0, 0, 0, 2 ** 64, 2 ** 200, 2 ** 255 + 2 ** 254]))
        nums = [base + v for v in nums]
        rehearsal = [int(v) for v in draw(st.permutations(list(range(1, n + 1))))] if draw(st.integers(0, 3)) == 0 else None
        return {"scn": scn, "sample_nums": nums, "rehearsal": rehearsal, "unbounded": draw(st.integers(0, 3)) == 0}

    return init()


def machine(shard):
    from harness import core
    from harness.findings import KnownFindings

    variants = shard["variants"]
    known = KnownFindings.load()

    class AuditHistory(RuleBasedStateMachine):
        def __init__(self):
            super().__init__()
            self.case = None
            self.ex = None
            self.out = core.Outcome()
            self.recorded = False

        @initialize(init=_init_strategy(shard.get("force_test")))
        def start(self, init):
            self.case = {"init": init, "rounds": []}
            self.ex = self._guard(lambda: Exec(init, self.out))

        def _guard(self, fn):
            try:
                return fn()
            except core.PropertyViolation:
                raise
            except Exception as e:  # noqa
                if core.has_lib_frame(e):
                    self.out.lib_exception("unexpected", e)
                    self._flush()
                else:
                    raise

        def _flush(self):
            if self.out.failures and not self.recorded:
                self.recorded = True
                self.out.nontrivial = bool(self.ex and self.ex.nontrivial())
                core.current_state().record(self.case, self.out, known)

        @rule(variant=st.sampled_from(variants), incs=st.lists(st.integers(0, 4), min_size=3, max_size=3), big=st.booleans(),
              sort_first=st.sampled_from([False, False, False, False, True]),
              estimate=st.sampled_from([None, None, None, 0.0, 0.01, 0.2]), what_if=st.sampled_from([0, 0, 0, 1, 3]))
        def audit_round(self, variant, incs, big, sort_first, estimate, what_if):
            if self.ex is None or not self.ex.ok:
                return  # audit never started (non-positive margin ...) or already failed: nothing to escalate
            cids = sorted(self.ex.contests)
            inc = {cid: incs[i % 3] * (3 if big else 1) for i, cid in enumerate(cids)}
            rnd = {"variant": variant, "inc": inc, "sort_first": sort_first, "estimate": estimate, "what_if": what_if}
            self.case["rounds"].append(rnd)
            self._guard(lambda: self.ex.step(rnd))
            self._flush()

        def teardown(self):
            if self.case is not None and not self.recorded and self.ex is not None:
                self.recorded = True
                self.out.nontrivial = self.ex.nontrivial()
                if self.ex.diff_styles if self.ex.ok else False:
                    self.out.cls("different-styles")
                self.out.cls(f"rounds={min(self.ex.rounds, 6)}")
                core.current_state().record(self.case, self.out, known)

    return AuditHistory


def evaluate(case, out):
    """replay of a recorded history (replay files, committed regression cases)."""
    ex = Exec(case["init"], out)
    for rnd in case["rounds"]:
        ex.step(rnd)
    out.nontrivial = ex.nontrivial()
