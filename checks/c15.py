"""C15  RAIRE's assertion set is the least difficult sufficient set."""
from checks.c04 import as_tuple, run_raire, total_ballots
from oracles import irv_ref as ir
from strategies import irv as si

ID = "C15"
TECHNIQUE = "Hypothesis-generated IRV profiles; brute-force minimax difficulty over all elimination orders and all true assertions vs. the search's result"
RULE = (
    "case = ballot profile (3..5 candidates, thorough 6) for which an audit is possible, either difficulty function, with or "
    "without an elimination-order hint. Oracle: max over alternative orders of the cheapest true NEB/NEN assertion that "
    "contradicts the order (difficulty from the shipped function on reference tallies) == largest difficulty returned "
    "(rtol 1e-9), agap = 0. Non-trivial = audit possible, >=3 candidates and the optimum is attained by an assertion that is "
    "not the globally cheapest true assertion. distinct = canonical JSON."
)
ASSUMPTIONS = [
    "difficulty functions: the two shipped ones and four generated ones that decrease as the margin grows (some non-positive, some below -10)",
    "as C04; difficulty functions decrease as the margin grows (both shipped ones do)",
    "profiles for which no audit is possible are C04's business and skipped here",
]


def shards(tier):
    q = tier == "quick"
    out = [{"name": f"n{n}-{i}", "n": n, "examples": (1500 if n <= 4 else 400) if q else (15000 if n <= 4 else 5000)}
           for n in (3, 4, 5) for i in (1, 2)]
    if q:
        # the search only becomes interesting from 4 candidates on: use the remaining cores there
        out += [{"name": f"n4-{i}", "n": 4, "examples": 1500} for i in (3, 4)]
        out += [{"name": f"n5-{i}", "n": 5, "examples": 500} for i in (3, 4, 5, 6)]
        out += [{"name": f"n6-{i}", "n": 6, "examples": 120, "budget_s": 60} for i in (1, 2)]
    else:
        out += [{"name": f"n6-{i}", "n": 6, "examples": 400, "budget_s": 2400} for i in (1, 2, 3, 4)]
    return out


def strategy(shard):
    return si.profile(n_min=shard["n"], n_max=shard["n"])


def evaluate(case, out):
    cands, winner = case["cands"], case["winner"]
    real = [b for b in case["ballots"] if b is not None]
    out.cls(f"n={len(cands)}", case["asn"], ("hint" if case["order_hint"][-1] == case["winner"] else "hint-ends-elsewhere") if case["order_hint"] else "no-hint")
    try:
        res, f = run_raire(case, earlier_search=(len(case["ballots"]) % 2 == 0))
        if len(case["ballots"]) % 2 == 0:
            out.cls("after-an-earlier-search-with-the-other-difficulty-function")
    except Exception as e:  # noqa
        out.lib_exception("compute_raire_assertions", e)
        return
    true = ir.all_true_assertions(cands, real, difficulty=f, total=total_ballots(case))
    if case.get("tot_extra"):
        out.cls("more-auditable-ballots-than-records")
    opt = ir.min_max_difficulty(cands, winner, true)
    out.enumerated = len(ir.alternative_orders(cands, winner))
    if opt is not None and not res:
        # a sufficient set of true assertions exists (its least possible largest difficulty is `opt`) and nothing is returned:
        # there is no largest returned difficulty to equal it
        out.fail("nothing-returned-although-the-optimum-is-finite", {"optimum": opt, "winner": winner})
        return
    if opt is None or not res or any(as_tuple(a) is None for a in res):
        out.skip("audit-impossible-or-malformed(C04)")
        return
    key = {(t[0], t[1], t[2], t[3]): t for t in true}
    for a in res:
        m = as_tuple(a)
        ref = key.get((m[0], m[1], m[2], m[3]))
        if ref is not None:
            out.expect(abs(m[6] - ref[6]) <= 1e-9 * max(1.0, abs(ref[6])), "reported-difficulty!=difficulty-function-on-true-tallies",
                       lambda: {"assertion": m[:4], "reported": m[6], "recomputed": ref[6]})
    # "the least difficult SUFFICIENT set": the optimum is a statement about sets that exclude every alternative winner
    from checks.c04 import as_tuple as _t
    mine = [_t(a) for a in res]
    for o in ir.alternative_orders(cands, winner):
        if not out.expect(any(ir.contradicts(m, o) for m in mine), "returned-set-is-not-sufficient",
                          lambda: {"order": list(o), "assertions": [m[:4] for m in mine]}):
            return
    got = max(a.difficulty for a in res)
    out.expect(abs(got - opt) <= 1e-9 * max(1.0, abs(opt)), "largest-difficulty!=minimax-optimum",
               lambda: {"returned": got, "optimum": opt, "assertions": [a.to_str() for a in res]})
    # the same profile without / with the hint must reach the same optimum
    other = dict(case, order_hint=None if case["order_hint"] else [c for c in cands if c != winner] + [winner])
    try:
        res2, _ = run_raire(other)
    except Exception as e:  # noqa
        out.lib_exception("compute_raire_assertions(hint-toggled)", e)
        return
    if res2 and all(as_tuple(a) is not None for a in res2):
        got2 = max(a.difficulty for a in res2)
        out.expect(abs(got2 - opt) <= 1e-9 * max(1.0, abs(opt)), "hint-changes-the-optimum", lambda: {"with": got, "toggled": got2, "optimum": opt})
    cheapest = min(a[6] for a in true)
    out.nontrivial = opt > cheapest * (1 + 1e-9)
    if out.nontrivial:
        out.cls("optimum-above-global-cheapest")
